# Builds lsim for one variant: make VARIANT=fast|asan|tsan [FEAT=pinned|pread]
# lcdb objects are compiled from /repo's working tree (source list read from CMakeLists.txt).
VARIANT ?= fast
FEAT ?= pinned
REPO ?= /repo
SUFFIX ?=
B := build/$(VARIANT)-$(FEAT)$(SUFFIX)

LDB_SRCS := $(shell sed -n '/^list(APPEND ldb_sources/,/)/p' $(REPO)/CMakeLists.txt | grep -o 'src/[A-Za-z0-9_/]*\.c')
LDB_HDRS := $(wildcard $(REPO)/src/*.h $(REPO)/src/util/*.h $(REPO)/src/table/*.h $(REPO)/include/*.h)
LDB_OBJS := $(patsubst src/%.c,$(B)/lcdb/%.o,$(LDB_SRCS))

LDB_DEFS := -D_GNU_SOURCE -DLDB_PTHREAD -DNDEBUG -DLCDB_VERIF
ifeq ($(FEAT),pread)
LDB_DEFS += -DLDB_HAVE_PREAD -DLDB_HAVE_FDATASYNC
endif
# lcdb's own assert()s and its #ifndef NDEBUG structure checks compiled in: extra oracles inside the code under test
ifeq ($(FEAT),assert)
LDB_DEFS := $(filter-out -DNDEBUG,$(LDB_DEFS))
endif

ifeq ($(VARIANT),fast)
CC := gcc
CXX := g++
LDB_CFLAGS := -O2 -g1
H_CXXFLAGS := -O2 -g1
S_CXXFLAGS := -O2 -g1
LDFLAGS_V :=
endif
ifeq ($(VARIANT),asan)
CC := clang
CXX := clang++
SAN := -fsanitize=address,undefined -fno-sanitize-recover=undefined -fno-omit-frame-pointer
LDB_CFLAGS := -O1 -g $(SAN)
H_CXXFLAGS := -O1 -g $(SAN)
S_CXXFLAGS := -O1 -g $(SAN)
LDFLAGS_V := $(SAN)
endif
ifeq ($(VARIANT),tsan)
CC := clang
CXX := clang++
LDB_CFLAGS := -O1 -g -fsanitize=thread -fno-omit-frame-pointer
# harness and scheduler are NOT instrumented: their hand-off must stay invisible to TSan
H_CXXFLAGS := -O1 -g -DLSIM_TSAN
S_CXXFLAGS := -O1 -g -DLSIM_TSAN
API_WRAPS := $(shell sh tools/api_wraps.sh)
LDFLAGS_V := -fsanitize=thread $(foreach w,$(API_WRAPS),-Wl,--wrap=$(w))
endif

H_SRCS := $(wildcard src/*.cc)
H_OBJS := $(patsubst src/%.cc,$(B)/h/%.o,$(H_SRCS)) $(B)/h/logfmt_glue.o

WRAPS := open close read pread write lseek fsync fdatasync rename unlink link mkdir rmdir stat fstat access opendir readdir closedir mmap munmap fcntl getrlimit gettimeofday select fdopen \
         pthread_mutex_init pthread_mutex_destroy pthread_mutex_lock pthread_mutex_unlock pthread_cond_init pthread_cond_destroy pthread_cond_wait pthread_cond_signal pthread_cond_broadcast pthread_create pthread_join pthread_detach __assert_fail
WRAPFLAGS := $(foreach w,$(WRAPS),-Wl,--wrap=$(w))

all: $(B)/lsim

$(B)/lcdb/%.o: $(REPO)/src/%.c $(LDB_HDRS)
	@mkdir -p $(dir $@)
	$(CC) -std=c90 $(LDB_DEFS) $(LDB_CFLAGS) -w -I$(REPO)/include -I$(REPO)/src -c $< -o $@

# glue over lcdb-internal headers: compiled like lcdb itself (instrumented in the tsan variant: it is lcdb-side code)
$(B)/h/logfmt_glue.o: src/logfmt_glue.c $(LDB_HDRS)
	@mkdir -p $(dir $@)
	$(CC) -std=gnu99 $(LDB_DEFS) $(LDB_CFLAGS) -Wall -I$(REPO)/include -I$(REPO)/src -c $< -o $@

$(B)/h/sched.o: src/sched.cc $(wildcard src/*.h)
	@mkdir -p $(dir $@)
	$(CXX) -std=c++17 $(S_CXXFLAGS) -Wall -Wextra -Wno-unused-parameter -c $< -o $@

$(B)/h/%.o: src/%.cc $(wildcard src/*.h) $(REPO)/include/lcdb.h
	@mkdir -p $(dir $@)
	$(CXX) -std=c++17 $(H_CXXFLAGS) -Wall -Wextra -Wno-unused-parameter -Wno-missing-field-initializers -I$(REPO)/include -c $< -o $@

$(B)/lsim: $(LDB_OBJS) $(H_OBJS)
	$(CXX) $(LDFLAGS_V) -o $@ $(H_OBJS) $(LDB_OBJS) $(WRAPFLAGS) -lpthread

.PHONY: all
