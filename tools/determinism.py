#!/usr/bin/env python3
"""Determinism self-test: every seed of every mode is executed in two different
processes (and twice inside each process), spread over different worker counts;
all event-log hashes must agree.  usage: tools/determinism.py [seeds_per_mode] [variant]
Writes selftest/determinism.json; exit 1 on any divergence."""
import json, os, subprocess, sys, threading
ROOT = os.path.dirname(os.path.dirname(os.path.abspath(__file__)))
MODES = [("model", "C01"), ("model", "C07"), ("crash", "C05"), ("crash", "C13"), ("conc", "C08"), ("conc", "C10"), ("shard", "C07"), ("ioerr", "C12"), ("corrupt", "C11"), ("logfmt", "C15"), ("repair", "C19"), ("life", "C20")]

def run(binary, mode, prop, start, n, out):
    r = subprocess.run([binary, "selftest", "--mode", mode, "--prop", prop, "--start", str(start), "--n", str(n)], stdout=subprocess.PIPE, stderr=subprocess.DEVNULL, text=True)
    hashes = {}
    for l in r.stdout.splitlines():
        f = l.split()
        if f and f[0] == "HASH":
            hashes[int(f[1])] = f[2]
    out.append((r.returncode, hashes, "MISMATCH" in r.stdout))

def sweep(binary, mode, prop, total, nproc):
    per = (total + nproc - 1) // nproc
    outs = [[] for _ in range(nproc)]
    ths = [threading.Thread(target=run, args=(binary, mode, prop, i * per, per, outs[i])) for i in range(nproc)]
    [t.start() for t in ths]; [t.join() for t in ths]
    merged, bad = {}, False
    for o in outs:
        rc, h, mm = o[0]
        bad = bad or mm or rc not in (0,)
        merged.update(h)
    return merged, bad

def main():
    total = int(sys.argv[1]) if len(sys.argv) > 1 else 64
    variant = sys.argv[2] if len(sys.argv) > 2 else "fast"
    binary = os.path.join(ROOT, "build", variant + "-pinned", "lsim")
    report, failed = [], False
    for mode, prop in MODES:
        a, bad_a = sweep(binary, mode, prop, total, 16)   # 16 processes
        b, bad_b = sweep(binary, mode, prop, total, 3)    # 3 processes: different seeds share a process
        diff = [i for i in a if i in b and a[i] != b[i]]
        ok = not bad_a and not bad_b and not diff and len(a) >= total and len(b) >= total
        failed = failed or not ok
        report.append({"mode": mode, "prop": prop, "seeds": total, "executions_per_seed": 4, "in_process_mismatch": bad_a or bad_b, "cross_process_mismatch": diff[:5], "ok": ok})
        print(mode, prop, "ok" if ok else "DIVERGED", diff[:5], flush=True)
    os.makedirs(os.path.join(ROOT, "selftest"), exist_ok=True)
    json.dump({"variant": variant, "results": report}, open(os.path.join(ROOT, "selftest", "determinism-%s.json" % variant), "w"), indent=1)
    sys.exit(1 if failed else 0)

if __name__ == "__main__":
    main()
