#!/bin/sh
# prints the lcdb API symbols wrapped by src/tsan_api.cc
sed -n 's/^WV\{0,1\}(.*\(ldb_[a-z_]*\), (.*/\1/p' "$(dirname "$0")/../src/tsan_api.cc"
