#!/usr/bin/env python3
"""Sensitivity self-test: each mutant is a small source change to chjj/lcdb that
compiles and would pass the repository's own tests; the registered quick check of
the named property must report a VIOLATION on it.  Mutants are applied to a
scratch copy of /repo under /var/tmp (removed afterwards), never to /repo.

usage: tools/mutants.py [name ...]      (no names = all)   env: MUT_BUDGET_S (default 40)
Writes selftest/mutants.json.
"""
import json, os, shutil, subprocess, sys, tempfile, time

ROOT = os.path.dirname(os.path.dirname(os.path.abspath(__file__)))

# name, property whose quick check must fire, file, old, new
MUTANTS = [
 ("build_table_no_fsync", "C02", "src/builder.c",
  "    if (rc == LDB_OK)\n      rc = ldb_wfile_sync(file);\n\n    if (rc == LDB_OK)\n      rc = ldb_wfile_close(file);",
  "    if (rc == LDB_OK)\n      rc = ldb_wfile_close(file);"),
 ("log_record_not_flushed", "C03", "src/log_writer.c",
  "      if (rc == LDB_OK)\n        rc = ldb_wfile_flush(lw->file);\n", "\n"),
 ("no_boundary_inputs", "C01", "src/version_set.c",
  "  add_boundary_inputs(&vset->icmp,\n                      &vset->current->files[level],\n                      &c->inputs[0]);\n\n  ldb_versions_get_range(vset, &c->inputs[0], &smallest, &largest);",
  "  ldb_versions_get_range(vset, &c->inputs[0], &smallest, &largest);"),
 ("smallest_snapshot_is_newest", "C06", "src/db_impl.c",
  "      ldb_snaplist_oldest(&db->snapshots)->sequence;", "      ldb_snaplist_newest(&db->snapshots)->sequence;"),
 ("seek_lt_without_step_back", "C07", "src/table/iterator.c",
  "  if (iter->table->valid(iter->ptr))\n    iter->table->prev(iter->ptr);\n  else\n    iter->table->last(iter->ptr);\n}\n\n/*\n * Empty Comparator",
  "  if (!iter->table->valid(iter->ptr))\n    iter->table->last(iter->ptr);\n}\n\n/*\n * Empty Comparator"),
 ("sequence_published_before_insert", "C04", "src/db_impl.c",
  "      ldb_mutex_unlock(&db->mutex);\n\n      contents = ldb_batch_contents(write_batch);",
  "      db->versions->last_sequence = last_sequence;\n      ldb_mutex_unlock(&db->mutex);\n\n      contents = ldb_batch_contents(write_batch);"),
 ("no_signal_to_next_writer", "C09", "src/db_impl.c",
  "  if (db->writers.length > 0)\n    ldb_cond_signal(&db->writers.head->cv);\n", "\n"),
 ("release_without_mutex", "C10", "src/db_impl.c",
  "ldb_release(ldb_t *db, const ldb_snapshot_t *snapshot) {\n  ldb_mutex_lock(&db->mutex);\n\n  ldb_snaplist_delete(&db->snapshots, snapshot);\n\n  ldb_mutex_unlock(&db->mutex);",
  "ldb_release(ldb_t *db, const ldb_snapshot_t *snapshot) {\n  ldb_snaplist_delete(&db->snapshots, snapshot);"),
 ("checksums_never_verified", "C11", "src/table/format.c",
  "  if (options->verify_checksums) {\n    uint32_t crc", "  if (options->verify_checksums && n == (size_t)-1) {\n    uint32_t crc"),
 ("log_append_error_not_latched", "C12", "src/db_impl.c",
  "      if (rc != LDB_OK)\n        log_error = 1;\n", "      if (rc != LDB_OK && options->sync)\n        log_error = 1;\n"),
 ("compaction_output_not_pending", "C13", "src/db_impl.c",
  "    rb_set64_put(&db->pending_outputs, file_number);\n\n    ldb_vector_push(&state->outputs, ldb_output_create(file_number));",
  "    ldb_vector_push(&state->outputs, ldb_output_create(file_number));"),
 ("reuse_log_after_torn_tail", "C05", "src/db_impl.c",
  "        lfile_size == valid_end &&\n", ""),
 ("current_switch_not_synced", "C02", "src/db_impl.c",
  "    if (rc == LDB_OK)\n      rc = ldb_sync_dir(db->dbname);\n", ""),
 ("lock_checked_after_open", "C20", "src/util/env_unix_impl.h",
  "    if (rb_set_has(&file_set, &id)) {\n      errno = ENOLCK;\n      goto fail;\n    }\n  }\n\n  fd = ldb_open(filename, O_RDWR | O_CREAT, 0644);",
  "  }\n\n  fd = ldb_open(filename, O_RDWR | O_CREAT, 0644);"),
 ("zero_header_silent", "C15", "src/log_reader.c",
  "      if (i < drop_size)\n        report_corruption(lr, drop_size, \"zero header followed by data\");\n", ""),
 ("repair_forgets_last_sequence", "C19", "src/repair.c",
  "  ldb_edit_set_last_sequence(&rep->edit, max_sequence);", "  ldb_edit_set_last_sequence(&rep->edit, 0);"),
 ("repair_logs_unsorted", "C19", "src/repair.c",
  "  ldb_array_sort(&rep->logs, compare_ascending);\n\n  for (i = 0; i < rep->logs.length; i++) {\n    uint64_t log = rep->logs.items[i];", "  for (i = 0; i < rep->logs.length; i++) {\n    uint64_t log = rep->logs.items[i];\n    (void)compare_ascending;"),
 ("manifest_next_file_stale", "C17", "src/version_set.c",
  "  ldb_edit_set_next_file(edit, vset->next_file_number);\n  ldb_edit_set_last_sequence(edit, vset->last_sequence);\n\n  v = ldb_version_create(vset);",
  "  ldb_edit_set_next_file(edit, vset->next_file_number > 3 ? vset->next_file_number - 2 : vset->next_file_number);\n  ldb_edit_set_last_sequence(edit, vset->last_sequence);\n\n  v = ldb_version_create(vset);"),
 ("recovery_marks_logs_late", "C13", "src/db_impl.c",
  "  for (i = 0; i < (int)logs.length; i++)\n    ldb_versions_mark_file_number(db->versions, logs.items[i]);\n\n", ""),
 ("compaction_reads_without_checksums", "C11", "src/version_set.c",
  "  options.verify_checksums = vset->options->paranoid_checks;", "  options.verify_checksums = 0;"),
 ("group_followers_always_ok", "C12", "src/db_impl.c",
  "      ready->status = rc;\n      ready->done = 1;", "      ready->status = LDB_OK;\n      ready->done = 1;"),
 ("newer_manifest_kept", "C13", "src/db_impl.c",
  "          keep = (number == db->versions->manifest_file_number);", "          keep = (number >= db->versions->manifest_file_number);"),
 ("manifest_number_not_redrawn", "C13", "src/db_impl.c",
  "      if (logs.items[i] == db->versions->manifest_file_number) {", "      if (logs.items[i] == db->versions->manifest_file_number && i < 0) {"),
 ("logs_kept_by_logfile_number", "C13", "src/db_impl.c",
  "          keep = ((number >= db->versions->log_number) ||", "          keep = ((number >= db->logfile_number) ||"),
 ("flush_inside_compaction_pushed_down", "C14", "src/db_impl.c",
  "  if (!in_compaction) {\n    base = db->versions->current;", "  if (in_compaction || !in_compaction) {\n    base = db->versions->current;"),
 ("get_ignores_immutable_memtable", "C08", "src/db_impl.c",
  "  imm = db->imm;\n  current = db->versions->current;\n\n  ldb_memtable_ref(mem);", "  imm = NULL;\n  current = db->versions->current;\n\n  ldb_memtable_ref(mem);"),
]


def sh(cmd, **kw):
    return subprocess.run(cmd, stdout=subprocess.PIPE, stderr=subprocess.STDOUT, text=True, **kw)


def run_mutant(m, budget):
    name, prop, path, old, new = m
    if old is None:
        return {"name": name, "property": prop, "status": "skipped (no anchor)"}
    scratch = tempfile.mkdtemp(prefix="lsim-mut-", dir="/var/tmp")
    suffix = "-mut-" + name
    try:
        for d in ("src", "include"):
            shutil.copytree(os.path.join("/repo", d), os.path.join(scratch, d))
        shutil.copy("/repo/CMakeLists.txt", scratch)
        f = os.path.join(scratch, path)
        s = open(f).read()
        if s.count(old) != 1:
            return {"name": name, "property": prop, "status": "anchor not found exactly once (%d)" % s.count(old)}
        open(f, "w").write(s.replace(old, new))
        env = dict(os.environ, VERIF_REPO=scratch, VERIF_BUILD_SUFFIX=suffix, VERIF_EVIDENCE_DIR=os.path.join(scratch, "evidence"), VERIF_BUDGET_S=str(budget))
        t0 = time.time()
        r = sh([os.path.join(ROOT, "bin", "verify"), prop, "quick"], env=env)
        viol = [l for l in r.stdout.splitlines() if l.startswith("VIOLATION")]
        det = [l.strip() for l in r.stdout.splitlines() if l.strip().startswith("class=")]
        status = "caught" if r.returncode == 1 and viol else ("machinery fault" if r.returncode == 2 else "MISSED")
        return {"name": name, "property": prop, "status": status, "rc": r.returncode, "wall_s": round(time.time() - t0, 1),
                "violation": viol[:1], "detail": [d[:300] for d in det[:1]], "tail": r.stdout[-600:] if status != "caught" else ""}
    finally:
        shutil.rmtree(scratch, ignore_errors=True)
        shutil.rmtree(os.path.join(ROOT, "build", "fast-pinned" + suffix), ignore_errors=True)
        shutil.rmtree(os.path.join(ROOT, "build", "asan-pinned" + suffix), ignore_errors=True)
        shutil.rmtree(os.path.join(ROOT, "build", "tsan-pinned" + suffix), ignore_errors=True)


def main():
    names = sys.argv[1:]
    budget = int(os.environ.get("MUT_BUDGET_S", "40"))
    results = []
    for m in MUTANTS:
        if names and m[0] not in names:
            continue
        res = run_mutant(m, budget)
        print(json.dumps(res), flush=True)
        results.append(res)
    out = os.path.join(ROOT, "selftest")
    os.makedirs(out, exist_ok=True)
    path = os.path.join(out, "mutants.json")
    prev = {}
    if os.path.exists(path):
        prev = {r["name"]: r for r in json.load(open(path))["results"]}
    for r in results:
        prev[r["name"]] = r
    json.dump({"results": sorted(prev.values(), key=lambda r: r["name"])}, open(path, "w"), indent=1)
    missed = [r["name"] for r in results if r["status"] != "caught" and not r["status"].startswith("skipped")]
    print("missed:", missed)
    sys.exit(1 if missed else 0)


if __name__ == "__main__":
    main()
