#!/bin/sh
# Runs the thorough tier of every check, one after the other (each uses all cores).
# Meant for `vp run` in the background: results are exploration, not evidence.
cd "$(dirname "$0")/.."
# with `vp run --with-repo` the repository snapshot is used, so later edits of /repo do not disturb the campaign
[ -n "${VP_RUN_REPO:-}" ] && export VERIF_REPO="$VP_RUN_REPO"
R=${VERIF_REPO:-/repo}
make -s -j16 VARIANT=fast REPO=$R && make -s -j16 VARIANT=asan REPO=$R && make -s -j16 VARIANT=tsan REPO=$R || exit 2
for id in ${CAMPAIGN_IDS:-C02 C05 C12 C13 C01 C08 C03 C14 C07 C09 C10 C11 C04 C06 C15 C17 C19 C20}; do
  echo "=== $id $(date +%T)"
  VERIF_EVIDENCE_DIR=$PWD/evidence-long VERIF_BUDGET_S=${CAMPAIGN_BUDGET_S:-600} VERIF_SEED=${CAMPAIGN_SEED:-20260923} bin/verify $id thorough
  echo "rc=$?"
done
