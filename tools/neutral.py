#!/usr/bin/env python3
"""No-alarm self-test: semantically neutral variants of chjj/lcdb (the property
still holds) must keep the named quick checks silent.  Same mechanics as
tools/mutants.py (scratch copy under /var/tmp, own build directory).
usage: tools/neutral.py [name ...]   env: NEU_BUDGET_S (default 30)"""
import json, os, shutil, subprocess, sys, tempfile, time
ROOT = os.path.dirname(os.path.dirname(os.path.abspath(__file__)))
VARIANTS = [
 ("small_write_buffer", ["C03", "C05", "C12", "C15"], "src/util/env_unix_impl.h", "#define LDB_WRITE_BUFFER 65536", "#define LDB_WRITE_BUFFER 4096"),
 ("every_write_synced", ["C02", "C03", "C12"], "src/db_impl.c", "      if (rc == LDB_OK && options->sync)\n        rc = ldb_wfile_sync(db->logfile);", "      if (rc == LDB_OK)\n        rc = ldb_wfile_sync(db->logfile);"),
 ("gc_deletes_in_reverse_order", ["C13", "C05", "C01"], "src/db_impl.c", "  for (i = 0; i < (int)to_delete.length; i++) {\n    const char *filename = to_delete.items[i];", "  for (i = (int)to_delete.length - 1; i >= 0; i--) {\n    const char *filename = to_delete.items[i];"),
 ("extra_dir_sync_after_table", ["C02", "C12", "C17"], "src/builder.c", "    if (rc == LDB_OK)\n      rc = ldb_wfile_close(file);", "    if (rc == LDB_OK)\n      rc = ldb_wfile_close(file);\n\n    if (rc == LDB_OK)\n      rc = ldb_sync_dir(dbname);"),
 ("manifest_number_always_redrawn", ["C13", "C17", "C05"], "src/db_impl.c", "      if (logs.items[i] == db->versions->manifest_file_number) {", "      if (logs.items[i] == db->versions->manifest_file_number || i == 0) {"),
 ("reuse_logs_ignored", ["C05", "C13", "C03", "C17"], "src/db_impl.c", "  if (rc == LDB_OK && db->options.reuse_logs && last_log && compactions == 0) {", "  if (rc == LDB_OK && db->options.reuse_logs && last_log && compactions < 0) {"),
 ("compaction_always_verifies_checksums", ["C11", "C01"], "src/version_set.c", "  options.verify_checksums = vset->options->paranoid_checks;", "  options.verify_checksums = 1;"),
 ("smaller_l0_trigger_delay", ["C09", "C08"], "src/db_impl.c", "      ldb_sleep_usec(1000);", "      ldb_sleep_usec(250);"),
]
def sh(cmd, **kw):
    return subprocess.run(cmd, stdout=subprocess.PIPE, stderr=subprocess.STDOUT, text=True, **kw)
def main():
    names = sys.argv[1:]; budget = os.environ.get("NEU_BUDGET_S", "30"); results = []
    for name, checks, path, old, new in VARIANTS:
        if names and name not in names: continue
        scratch = tempfile.mkdtemp(prefix="lsim-neu-", dir="/var/tmp"); suffix = "-neu-" + name
        try:
            for d in ("src", "include"): shutil.copytree(os.path.join("/repo", d), os.path.join(scratch, d))
            shutil.copy("/repo/CMakeLists.txt", scratch)
            f = os.path.join(scratch, path); s = open(f).read()
            if s.count(old) != 1: results.append({"name": name, "status": "anchor not found"}); print(results[-1]); continue
            open(f, "w").write(s.replace(old, new))
            env = dict(os.environ, VERIF_REPO=scratch, VERIF_BUILD_SUFFIX=suffix, VERIF_EVIDENCE_DIR=os.path.join(scratch, "evidence"), VERIF_BUDGET_S=budget)
            for c in checks:
                r = sh([os.path.join(ROOT, "bin", "verify"), c, "quick"], env=env)
                res = {"name": name, "check": c, "rc": r.returncode, "status": "silent" if r.returncode == 0 else "ALARM", "first_line": r.stdout.splitlines()[0] if r.stdout else "", "tail": r.stdout[-800:] if r.returncode else ""}
                print(json.dumps(res), flush=True); results.append(res)
        finally:
            shutil.rmtree(scratch, ignore_errors=True)
            for v in ("fast", "asan", "tsan"): shutil.rmtree(os.path.join(ROOT, "build", v + "-pinned" + suffix), ignore_errors=True)
    os.makedirs(os.path.join(ROOT, "selftest"), exist_ok=True)
    json.dump({"results": results}, open(os.path.join(ROOT, "selftest", "neutral.json"), "w"), indent=1)
    sys.exit(1 if any(r.get("status") != "silent" for r in results) else 0)
if __name__ == "__main__":
    main()
