#!/usr/bin/env python3
"""Runs the registered checks against each independently seeded breaking change:
applies seeded/<id>/patch.diff to /repo, runs bin/verify <property> quick (and, if
that stays silent, every other check named in --also), reverts /repo.  Results go to
seeded/<id>/result.json.   usage: tools/seeded_eval.py [id ...]"""
import json, os, subprocess, sys, time
ROOT = os.path.dirname(os.path.dirname(os.path.abspath(__file__)))
REPO = os.environ.get("SEED_REPO", "/repo")   # a scratch clone can be used so that /repo stays free for other work

def sh(cmd, **kw):
    return subprocess.run(cmd, stdout=subprocess.PIPE, stderr=subprocess.STDOUT, text=True, **kw)

def main():
    ids = sys.argv[1:] or sorted(os.listdir(os.path.join(ROOT, "seeded")))
    for sid in ids:
        d = os.path.join(ROOT, "seeded", sid)
        meta = json.load(open(os.path.join(d, "meta.json")))
        if sh(["git", "-C", REPO, "status", "--porcelain", "--untracked-files=no"]).stdout.strip():
            print("refusing: /repo has uncommitted changes"); sys.exit(2)
        r = sh(["git", "-C", REPO, "apply", os.path.join(d, "patch.diff")])
        if r.returncode != 0:
            print(sid, "patch does not apply:", r.stdout[:300]); continue
        results = []
        try:
            for prop in [meta["property"]] + meta.get("also_try", []):
                env = dict(os.environ, VERIF_REPO=REPO, VERIF_BUILD_SUFFIX=("-seed" if REPO != "/repo" else ""), VERIF_EVIDENCE_DIR="/var/tmp/lsim-seeded-evidence", VERIF_BUDGET_S=os.environ.get("SEED_BUDGET_S", "45"))
                t0 = time.time()
                c = sh([os.path.join(ROOT, "bin", "verify"), prop, os.environ.get("SEED_TIER", "quick")], env=env)
                viol = [l for l in c.stdout.splitlines() if l.startswith("VIOLATION")]
                det = [l.strip()[:400] for l in c.stdout.splitlines() if l.strip().startswith("class=")]
                results.append({"check": prop, "rc": c.returncode, "caught": c.returncode == 1 and bool(viol), "violation": viol[:2], "detail": det[:2], "wall_s": round(time.time() - t0, 1), "summary": c.stdout.splitlines()[0] if c.stdout else ""})
                print(sid, prop, "caught" if results[-1]["caught"] else "silent rc=%d" % c.returncode, det[:1], flush=True)
                if results[-1]["caught"]:
                    break
        finally:
            sh(["git", "-C", REPO, "checkout", "--", "."])
        json.dump({"id": sid, "results": results, "caught_by": [r["check"] for r in results if r["caught"]]}, open(os.path.join(d, "result.json"), "w"), indent=1)

if __name__ == "__main__":
    main()
