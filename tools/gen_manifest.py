#!/usr/bin/env python3
"""Writes /verif/MANIFEST.json from the table below (single source of truth for the interface)."""
import json, os, subprocess
ROOT = os.path.dirname(os.path.dirname(os.path.abspath(__file__)))

def hook_commits():
    try:
        out = subprocess.run(["git", "-C", "/repo", "log", "--format=%H %s"], stdout=subprocess.PIPE, text=True).stdout
        return [l.split()[0] for l in out.splitlines() if l.split(" ", 1)[1].startswith("verif hook")]
    except Exception:
        return []

ENGINE = "lsim"
CHECKS = {
 "C01": ("exploration", "seeded search over (option configuration x operation history x schedule): the real lcdb objects run under the deterministic scheduler on the simulated file system and every read is compared with a sorted-map model after every step and by full sweeps after every structural event; sampled, not exhaustive.", "7 C01",
         "one caller thread + lcdb's background worker; option space and plan language of DESIGN section 5; a clean campaign is evidence, not proof", "deterministic simulation: model-based oracle under seeded schedules"),
 "C06": ("exploration", "same runs as C01 with up to 6 simultaneously live snapshots held across per-level manual compactions, flushes, reopen-free histories; every read through a snapshot (get and both scan directions) is compared with the frozen model copy taken when ldb_snapshot returned. A concurrency campaign (2-8 threads) holds snapshots across a flush and a level-0 compaction issued by the holder while the other threads keep writing and compacting, and re-reads them: the view must not change.", "7 C06",
         "snapshot views are compared at every structural event and at sampled steps, not after every single step", "deterministic simulation: frozen-model oracle under seeded schedules"),
 "C07": ("exploration", "up to 4 live iterators (with and without snapshots) driven through all nine positioning calls with present/absent/boundary/empty targets and direction changes, while writes, flushes, compactions and file deletions proceed; valid/key/value/status compared with a cursor over the frozen model after every call. A concurrency campaign keeps iterators alive across a flush and a compaction under concurrent writers and requires a second traversal to yield the same entries, forward = backward, keys strictly increasing, status OK.", "7 C07",
         "each iterator is used by one thread; next/prev only issued when valid (API contract)", "deterministic simulation: model cursor oracle under seeded schedules"),
 "C13": ("exploration", "a file-set monitor inside the simulated file system watches every create/unlink of the journal: unlink of a table pinned by a live iterator, ENOENT on a table open, file-number reuse (within an incarnation and across reopen/crash), and directory == live set at quiescent points after flush/compaction/reopen/kill-restart.", "7 C13",
         "the pinned set of an iterator is the intersection of the layouts reported immediately before and after its creation (sound, possibly incomplete); liveness of a table is learnt from reported layouts", "deterministic simulation: journal monitor + quiescent-point directory audit"),
 "C14": ("exploration", "at every quiescent point after a structural event the reported layout is parsed and every table is decoded by an independent reader: size, exact bounds, strict internal-key order, disjoint sorted levels, per-user-key age order across level-0 files and levels; flush+close+reopen must reproduce the listing (read before the worker's first step). A concurrency campaign applies the same structure check at the quiescent point after every multi-threaded history (flushes running inside compactions).", "7 C14",
         "independent decoders written from the format documents are trusted; quiescence is exact (scheduler drain)", "deterministic simulation: independent decoder cross-check at quiescent points"),
 "C17": ("exploration", "in-family part only: at every reopen and kill-restart of real histories the MANIFEST named by CURRENT is decoded and replayed by an independent decoder/builder and compared with the reported layout; every edit is re-encoded and must be byte-identical; counters must cover every file on disk. The exhaustive field-value/varint sweep is a pure-input property and is not claimed.", "7 C17",
         "edit encode/decode totality over all field values (inputs quantifier) is NOT covered by this technique", "deterministic simulation: independent MANIFEST replay on simulated histories"),
 "C02": ("fault_enumeration", "within each recorded multi-writer run every system-call boundary of the journal (stride-sampled above 260-400 boundaries, keeping everything adjacent to fsync/rename/unlink/create) is crashed under the power-loss model exactly as the property states it (minimal, directory-ahead-of-data, data-ahead-of-directory, torn tail incl. sector-aligned, random mixes); every image is recovered by the real ldb_open (paranoid both ways) and must contain every acknowledged sync batch and every acknowledged batch whose log had been unlinked; nested crashes inside recovery keep the same required set. Across runs: sampled.", "4.2, 7 C02",
         "'has deleted the log file' is read as: the unlink call has returned; the file system model is the one in the property (directory operations persist as a prefix up to the last fsync of anything; file data as a prefix at least to the file's own last fsync), nothing stricter", "deterministic simulation: journal crash-point enumeration with power-loss image families"),
 "C03": ("fault_enumeration", "same recorded runs, byte-exact OS image at every journal boundary (foreground writers and background compaction interleaved by the scheduler), recovered by the real ldb_open; contents must equal the fold, in original order, of all acknowledged batches plus possibly in-flight ones (marker key per batch, unique values); nested kill points inside recovery.", "4.2, 7 C03",
         "a kill does not tear a completed write call; acknowledgement = the API call returned before the boundary", "deterministic simulation: journal crash-point enumeration with kill images"),
 "C04": ("exploration", "crash half: batches of 1..1500 updates incl. records spanning several 32 KiB blocks and the 64 KiB write buffer; after every crash image the contents must equal a fold of whole batches (a partially applied batch cannot, because values are unique); group-commit records are decoded independently from the log bytes and must consist of whole member batches in per-writer order. The concurrent-visibility half (snapshot/iterator readers racing writers) is decided by the concurrency campaign of this check.", "7 C04",
         "visibility half explored at lock/cond/atomic granularity under sampled schedules", "deterministic simulation: crash images + independent log decoding; concurrent snapshot readers under seeded schedules"),
 "C05": ("fault_enumeration", "every crash image of the C02/C03 families: ldb_open must succeed with paranoid_checks 0 and 1; contents = fold of a subset of batches that is a prefix within every log segment; a second open is idempotent; a follow-up workload (new keys, overwrite and delete of recovered keys) must win and persist across another reopen (reuse_logs both ways); crashes inside recovery are judged the same way.", "6, 7 C05",
         "batch-to-segment mapping comes from an independent decode of the journal's log bytes", "deterministic simulation: crash-point enumeration + post-recovery workload"),
 "C08": ("exploration", "2..8 caller threads on one handle under seeded schedules (random, PCT, worker-starved, worker-eager, burst; preemption at locks, condition variables, thread start, file calls and lcdb's atomics). Histories of up to 64 operations (writes, multi-key batches, reads, snapshot reads, iterator scans, flush, compact-range, final-state reads) stamped with scheduler step numbers are decided by a Wing-Gong linearizability search with memoisation; every history of any size is checked for reads from the future, stale reads, reads going backwards per thread, values never written and all-or-none batch visibility. The memtable is pre-filled so that the switch and background flush happen inside the history.", "6, 7 C08",
         "schedules are sampled (seeded, PCT-biased), not systematically enumerated; a search that exhausts its node cap counts as inconclusive, never as a violation", "deterministic simulation: seeded schedule search + Wing-Gong linearizability checker"),
 "C09": ("exploration", "every multi-threaded run is a deadlock test: the scheduler owns every lock and condition variable, so 'some thread unfinished, none runnable' is an exact state and is reported with the wait-for table; a per-run step budget bounds every call; workloads add queued group commits, writers stalled on a full buffer with the worker starved, accumulated level-0 files, flush/compact/backup racing each other, spurious wake-ups, and ldb_close issued while background work is scheduled or mid-way. A leaked background thread after close is also reported. A quarter of the workers run ioerr-mode (every enumerated I/O fault site, concurrent write bursts) under the same detector, so a call that gets stuck on an error path is found too.", "3.2, 7 C09",
         "liveness is bounded (step budget 3e7 per run, calibrated >100x the largest clean run); close under a running caller violates the API contract and is not generated", "deterministic simulation: exact deadlock detection under seeded schedules"),
 "C10": ("exploration", "the concurrency workload widened to put/del/write/get/iterate/snapshot/release/flush/compact/property/approximate-sizes/backup/close-after-join runs in a ThreadSanitizer build in which only lcdb is instrumented: the scheduler's hand-off is invisible to TSan, so any pair of conflicting accesses that lcdb's own locks/atomics do not order is reported even though the threads ran one after the other; the same plans run under AddressSanitizer+UBSan for the memory-error half. Sensitivity was confirmed with a planted race (unlocked snapshot release).", "3.2, 7 C10",
         "a race is found when both accesses occur in one run (happens-before detector), in any order; weak-memory effects a race-free program cannot observe are out of scope", "deterministic simulation under ThreadSanitizer (hidden scheduler hand-off) and AddressSanitizer"),
 "C12": ("fault_enumeration", "each plan is executed fault-free while every libc file call is counted per (call kind, file class); fault sites (open/creat, write, fsync, rename, unlink, close, mkdir, link, read, mmap, opendir x log/table/MANIFEST/CURRENT/temp/dir x ordinal; all ordinals when <=4, first/last/2 random otherwise) are then enumerated with ENOSPC/EIO/EMFILE/ENOENT/EACCES, one-shot or persistent, optionally after a partial write, plus short-write/short-read/EINTR noise; the plan is re-executed once per site (capped per plan), faults are cleared, the database is closed or killed, reopened and compared. Oracle: no call errs before a fault fired; reads are exact or report an error in a call that was failed; no crash, deadlock or sanitizer report; reopen succeeds; every acknowledged batch is present and contents are a fold of whole batches.", "6, 7 C12",
         "'surfaces as an error status' is checked through its consequences (an acknowledged write is never lost); deliberately ignored failures (unlink of an obsolete file, close of a read-only file) are not required to surface; stat/access/lseek failures are outside the property's fault list", "deterministic simulation: per-call fault-site enumeration with reopen comparison"),
 "C11": ("fault_enumeration", "a seeded history builds a small multi-level database (several tables with filter blocks, non-empty log, multi-record MANIFEST) that is closed cleanly; one fault at a time is applied: every byte of each table's footer, index block, metaindex block and every block trailer is enumerated, filter and data-block bodies are sampled; alterations are a single-bit flip, 0x00, 0xFF, truncation at the offset and a zeroed 512-byte sector (thorough: all eight bit flips at every enumerated position); log/MANIFEST/CURRENT positions are sampled (CURRENT: all). Each damaged image is opened with paranoid_checks=1 and read with verify_checksums=1: every get of every key is the model value or an error; a scan with OK status equals the model in both directions; a scan with an error yields only pairs that were written; metadata damage yields a fold of whole batches or a failed open. Runs under ASan+UBSan on part of the workers.", "7 C11",
         "one fault per image; damage behind a valid CRC (not producible by a disk) is out of scope; mutations per database are capped (uniform subsample of the enumeration) in the quick tier", "deterministic simulation: structure-aware enumeration of stored-byte damage"),
 "C15": ("exploration", "in-family part only: the real writer over the real buffered file over the simulated file system appends seeded record sequences (lengths biased to 0, 1, block-size edges +-8, up to 1 MiB) in one or more sessions (log reuse appends at the current size); bytes on disk must equal an independent encoder's output; the real reader reads back fault-free (also under short reads/EINTR), under cuts at every byte of the tail, around every record boundary and block boundary (exactly the records wholly before the cut, no report), and under bit/byte/multi-byte/sector damage (nothing invented, records before the damage and in later intact blocks returned, every drop reported unless the image is a legal torn tail, and agreement with an independent decoder). The exhaustive length x offset sweep and the CRC alignment sweep are pure-input properties and are not claimed.", "7 C15",
         "a zero header followed only by zeros to the end of its block is treated as a legal (preallocated/zero-extended) tail: no report required there", "deterministic simulation: real writer/reader over the simulated file with torn tails and stored-byte damage, judged by an independent codec"),
 "C19": ("exploration", "seeded histories build arbitrary layouts (flushes, per-level manual compactions that rewrite old data into higher-numbered files, tombstones, several versions per key across files, a live log; in a third of the runs the database is not closed but killed with the worker part-way through a flush or compaction, leaving half-written and orphan tables), then CURRENT and/or MANIFEST are removed, truncated or bit-damaged (or left intact); ldb_repair and ldb_open run on the simulated file system; the newest version per user key is computed from the surviving table and log files by independent decoders and compared with get of every key and with forward/backward scans; follow-up writes must take precedence, persist across a reopen, be logged with sequence numbers above every surviving one, and new files must be numbered above everything on disk. Custom comparators included.", "7 C19",
         "one open known finding (get returns an older version after repair while the iterator is right) is listed in known_findings.json; any other deviation is a violation", "deterministic simulation: metadata-loss faults + repair judged by independent decoders"),
 "C20": ("exploration", "seeded lifecycle sequences on the simulated file system, whose fcntl model implements POSIX record-lock semantics (closing any descriptor of a file drops the process's locks) with a stub second process that probes the LOCK file: open / close / second in-process open / open with another comparator / error_if_exists / missing database, each followed by lock probes, model comparison and a fresh open; backup and copy between arbitrary operations and - in a multi-threaded flavour - at arbitrary scheduler instants while 1-3 writer threads and the compaction worker run (backup = openable database whose contents are a per-writer-prefix fold containing everything acknowledged before the call and nothing issued after it; source layout and contents unchanged; writes to the copy never reach the source); destroy with foreign files and subdirectories (byte-identical afterwards, own files gone); destroy/copy of an open database refused without harm.", "7 C20",
         "a second process exists only as a lock-probing stub; two lcdb instances on one directory are not run", "deterministic simulation: lifecycle sequences with POSIX lock model, concurrent backups under seeded schedules"),
}
NOT_APPLICABLE = [
 ("C16", "pure function of (entries, options): no schedule, clock, crash or I/O fault to search; tables produced by simulated histories are decoded independently as part of C14/C11/C19 but C16 itself is not claimed"),
 ("C18", "totality/memory safety on arbitrary bytes is quantified over inputs only (fuzzing, not fault/schedule search); disk-producible damage is exercised under ASan+UBSan by C11 but C18 is not claimed"),
]
WIP = []

def main():
    checks = []
    for pid in sorted(CHECKS):
        cat, text, ref, note, tech = CHECKS[pid]
        checks.append({
            "property_id": pid,
            "quick_cmd": "bin/verify %s quick" % pid,
            "thorough_cmd": "bin/verify %s thorough" % pid,
            "evidence_file": "evidence/%s.json" % pid,
            "replay_cmd_template": "bin/replay {path}",
            "engine": ENGINE,
            "level_claimed": {"category": cat, "text": text, "design_ref": "DESIGN.md section " + ref},
            "level_note": note,
            "technique": tech,
        })
    na = [{"property_id": p, "reason": r} for p, r in NOT_APPLICABLE]
    for p in WIP:
        if p not in CHECKS:
            na.append({"property_id": p, "reason": "check designed (DESIGN.md section 7) but not built yet in this commit; not claimed until it is"})
    m = {
        "version": 1,
        "setup_cmd": "make -s -j16 VARIANT=fast && make -s -j16 VARIANT=asan && make -s -j16 VARIANT=tsan",
        "hooks": {
            "guard": "LCDB_VERIF",
            "enable": "checks compile /repo's sources (list read from CMakeLists.txt) with -DLCDB_VERIF -D_GNU_SOURCE -DLDB_PTHREAD -DNDEBUG into /verif/build/<variant>/ via /verif/Makefile",
            "baseline_off_cmd": "tools/baseline_off.sh",
            "source_commits": hook_commits(),
            "add_only": True,
        },
        "engines": [{"name": ENGINE, "path": "src/", "serves_properties": sorted(CHECKS), "kind_free_text": "deterministic simulator: seeded scheduler over real pthreads (one running, others parked), in-memory POSIX file layer under link-time wrappers with journal/crash images/fault injection, reference models and independent format decoders, ddmin plan shrinker, fresh-process replay gate"}],
        "checks": checks,
        "notes": "bin/verify <id> quick|thorough; honours VERIF_SEED, VERIF_TIER, VERIF_BUDGET_S. exit 0 ok / 1 VIOLATION / 2 machinery fault. known_findings.json lists genuine defects (open ones print KNOWN-FINDING).",
        "not_applicable": sorted(na, key=lambda x: x["property_id"]),
    }
    with open(os.path.join(ROOT, "MANIFEST.json"), "w") as f:
        json.dump(m, f, indent=1)
        f.write("\n")

if __name__ == "__main__":
    main()
