#!/bin/sh
# Builds /repo exactly like the pinned build (cmake, Ninja, RelWithDebInfo, hook guard
# LCDB_VERIF NOT defined) in a scratch directory and runs the repository's test suite.
set -u
d=$(mktemp -d /var/tmp/lcdb-baseline.XXXXXX)
trap 'rm -rf "$d"' EXIT
cmake -G Ninja -S /repo -B "$d" -DCMAKE_BUILD_TYPE=RelWithDebInfo -DCMAKE_C_FLAGS=-Wno-error >"$d/configure.log" 2>&1 || { cat "$d/configure.log"; exit 2; }
cmake --build "$d" >"$d/build.log" 2>&1 || { tail -50 "$d/build.log"; exit 2; }
ctest --test-dir "$d" -j8 --timeout 900 ${JUNIT_OUT:+--output-junit "$JUNIT_OUT"}
