// Deterministic scheduler for real pthreads: exactly one simulated thread runs,
// all others are parked on a private futex word.  See DESIGN.md section 3.2.
#pragma once
#include <stdint.h>
#include <stddef.h>
#include <string>
#include <vector>

namespace sim {

enum Policy { P_RANDOM = 0, P_PCT = 1, P_BG_STARVE = 2, P_BG_EAGER = 3, P_BURST = 4, P_NPOLICY = 5 };

enum YieldKind {
  Y_MUTEX_LOCK = 1, Y_MUTEX_UNLOCK, Y_COND_WAIT, Y_COND_SIGNAL, Y_COND_BROADCAST,
  Y_CREATE, Y_EXIT, Y_JOIN, Y_FILE, Y_ATOMIC, Y_SLEEP, Y_API, Y_NKINDS
};

struct SchedConfig {
  int policy = P_RANDOM;
  double p_switch = 0.1;      // P_RANDOM / caller choice in BG_* policies
  int pct_depth = 2;          // P_PCT: number of priority change points
  uint64_t pct_horizon = 20000; // P_PCT: change points drawn in [0, horizon)
  int burst = 50;             // P_BURST
  uint64_t seed = 1;
  bool spurious = false;      // spurious cond wake-ups
  bool nonfifo_signal = false;
  int create_order = 0;       // 0 = policy decides, 1 = child runs first, 2 = creator keeps running
  bool atomics_yield = true;  // H1 points are yield points
  uint64_t max_steps = 50000000ULL;
};

struct SchedStats {
  uint64_t steps = 0, switches = 0, spurious = 0, atomic_switches = 0;
  uint64_t by_kind[Y_NKINDS] = {0};
  uint64_t threads_created = 0;
  uint64_t hash = 0;          // hash of every (kind, tid) event and every switch decision
  uint64_t cond_waits = 0, mutex_blocks = 0;
};

// All functions below must be called from a simulated thread (the main thread
// becomes simulated thread 0 at init()).
void init();
void reset(const SchedConfig &cfg);      // only thread 0, all other threads finished
const SchedStats &stats();
void budget_reset();   // the step budget (max_steps) counts from here: call at the start of each sub-run
uint64_t step();
uint64_t clock_usec();                   // simulated clock
void clock_jump(int64_t delta_usec);
int self_tid();
bool self_is_bg();
void yield_point(int kind, const void *obj);
int spawn(void (*fn)(void *), void *arg); // caller thread; returns tid
void join(int tid);
void drain();                            // run the other threads until none of them is runnable
int live_threads();                      // unfinished threads other than the caller
void no_preempt_begin();
void no_preempt_end();
struct NoPreempt { NoPreempt() { no_preempt_begin(); } ~NoPreempt() { no_preempt_end(); } };

// Called (on the detecting thread) when some thread is unfinished and none is
// runnable, or when max_steps is exceeded.  Must not return.
typedef void (*fatal_fn)(const char *cls, const std::string &report);
void set_fatal_handler(fatal_fn f);
std::string dump_threads();
// schedule trace (off by default): every context switch as (step, yield kind, from tid, to tid)
struct Switch { uint64_t step; int kind, from, to; };
void trace_enable(bool on);
const std::vector<Switch> &trace();

} // namespace sim
