#include "monitors.h"
#include <algorithm>
#include <stdio.h>

using ref::IKey;

int ikey_compare(const KeyCmp &kc, const IKey &a, const IKey &b) {
  int r = kc.cmp(a.user, b.user);
  if (r) return r;
  uint64_t pa = (a.seq << 8) | (uint64_t)a.type, pb = (b.seq << 8) | (uint64_t)b.type;
  return pa > pb ? -1 : pa < pb ? 1 : 0; // newer first
}

// ------------------------------------------------------------------ C13
void FileMonitor::note_live(const std::vector<SstFile> &files) {
  for (auto &f : files) ever_live.insert(f.number);
}

void FileMonitor::after_crash(const string &) { created.clear(); mprog.clear(); mprog_init = false; }

void FileMonitor::scan(const simfs::Journal &j, size_t *pos, const std::vector<const std::set<uint64_t> *> &pins, size_t end) {
  if (!mprog_init) {
    mprog_init = true;
    for (auto &kv : j.base) {
      uint64_t n; int c;
      size_t s2 = kv.first.rfind('/');
      if (parse_db_filename(kv.first.substr(s2 + 1), &n, &c) && c == simfs::FC_MANIFEST) { auto bl = j.base_len.find(kv.second); mprog[kv.second] = bl == j.base_len.end() ? 0 : bl->second; }
    }
  }
  for (; *pos < j.e.size() && *pos < end; ++*pos) {
    const simfs::JEntry &e = j.e[*pos];
    if (e.t != simfs::J_UNLINK && e.t != simfs::J_CREATE && e.t != simfs::J_WRITE) continue;
    size_t sl = e.a.rfind('/');
    string base = e.a.substr(sl + 1);
    uint64_t num; int fc;
    if (!parse_db_filename(base, &num, &fc)) continue;
    if (e.t == simfs::J_WRITE) {
      if (fc == simfs::FC_LOG && e.len > 0) ever_live.insert(num);
      if (fc == simfs::FC_MANIFEST) { size_t &pr = mprog[e.ino]; pr = std::max(pr, e.off + e.len); }
      continue;
    }
    if (e.t == simfs::J_UNLINK && fc == simfs::FC_LOG && ever_live.count(num)) {
      // a log that received data may go only once a version edit naming a higher log number has been written: until
      // then it holds the only copy outside memory of a write buffer that is still being filled or flushed
      uint64_t maxlog = 0;
      for (auto &m : mprog) {
        auto d = j.data.find(m.first);
        if (d == j.data.end()) continue;
        ref::LogDecode ld = ref::log_decode(d->second.substr(0, std::min(m.second, d->second.size())));
        for (auto &r : ld.records) { ref::Edit ed; if (ref::edit_decode(r.data, &ed) && ed.has_log) maxlog = std::max(maxlog, ed.log); }
      }
      count("log_unlinks_checked");
      if (num >= maxlog)
        violation("C13", "log_unlinked_early", "%s was unlinked (journal entry %zu, step %llu) although no version edit written so far names a log number above it (highest recorded: %llu): the write buffer it backs is not in any table yet", base.c_str(), *pos, (unsigned long long)e.step, (unsigned long long)maxlog);
      continue;
    }
    if (e.t == simfs::J_UNLINK) {
      if (fc == simfs::FC_TABLE)
        for (auto *p : pins)
          if (p->count(num)) { violation("C13", "unlink_pinned", "table %s was unlinked (journal entry %zu, step %llu) while a live iterator still references it", base.c_str(), *pos, (unsigned long long)e.step); break; }
      continue;
    }
    // J_CREATE
    if (fc != simfs::FC_TABLE && fc != simfs::FC_LOG && fc != simfs::FC_MANIFEST && fc != simfs::FC_TEMP) continue;
    int grp = (fc == simfs::FC_MANIFEST || fc == simfs::FC_TEMP) ? 100 + (fc == simfs::FC_TEMP) : fc;
    auto it = created.find(num);
    if (it != created.end()) {
      bool pair_ok = (it->second >= 100 && grp >= 100 && it->second != grp);
      if (!pair_ok) violation("C13", "number_reused", "file number %llu is used again for %s within one process incarnation (journal entry %zu)", (unsigned long long)num, base.c_str(), *pos);
    }
    if (it == created.end() || grp < 100) created[num] = grp;
    if ((fc == simfs::FC_TABLE || fc == simfs::FC_LOG || fc == simfs::FC_MANIFEST) && ever_live.count(num))
      violation("C13", "number_reused", "file number %llu of a file that was live earlier (a table named by a version, or a log that received data) is reused for %s (journal entry %zu)", (unsigned long long)num, base.c_str(), *pos);
  }
}

// ------------------------------------------------------------------ decode cache
namespace {
struct TableInfo {
  bool ok = false; string error;
  size_t size = 0; size_t entries = 0;
  IKey first, last;
  bool sorted = true; string sort_err;
  std::map<string, std::pair<uint64_t, uint64_t>> keyseq; // user -> (min seq, max seq)
};
std::map<uint64_t, TableInfo> g_tcache;  // keyed by inode number (immutable files)

const TableInfo &table_info(const string &path, const KeyCmp &kc) {
  uint64_t ino = simfs::inode_of(path);
  auto it = g_tcache.find(ino);
  if (it != g_tcache.end()) return it->second;
  TableInfo &ti = g_tcache[ino];
  string data;
  if (!simfs::read_file(path, &data)) { ti.error = "file missing"; return ti; }
  ti.size = data.size();
  ref::TableDecode d = ref::table_decode(data);
  if (!d.ok) { ti.error = d.error; return ti; }
  ti.ok = true;
  ti.entries = d.entries.size();
  IKey prev; bool have = false;
  for (size_t i = 0; i < d.entries.size(); i++) {
    IKey k;
    if (!ref::ikey_parse(d.entries[i].ikey, &k)) { ti.sorted = false; ti.sort_err = "entry with malformed internal key"; break; }
    if (have && ikey_compare(kc, prev, k) >= 0) { ti.sorted = false; char b[200]; snprintf(b, sizeof b, "entry %zu (%s @ %llu) does not sort after its predecessor (%s @ %llu)", i, printable(k.user).c_str(), (unsigned long long)k.seq, printable(prev.user).c_str(), (unsigned long long)prev.seq); ti.sort_err = b; break; }
    if (i == 0) ti.first = k;
    ti.last = k;
    auto &ms = ti.keyseq[k.user];
    if (ms.second == 0 && ms.first == 0) ms = {k.seq, k.seq}; else { ms.first = std::min(ms.first, k.seq); ms.second = std::max(ms.second, k.seq); }
    prev = k; have = true;
  }
  return ti;
}
} // namespace

void monitors_reset() { g_tcache.clear(); }

// ------------------------------------------------------------------ C14
void check_level_structure(const string &dir, const std::vector<SstFile> &files, const KeyCmp &kc, const char *why) {
  // per file
  for (auto &f : files) {
    string path = table_path(dir, f.number);
    if (!simfs::exists(path)) { violation("C13", "live_file_missing", "%s: table %llu is named by the current version but is not in the directory", why, (unsigned long long)f.number); return; }
    const TableInfo &ti = table_info(path, kc);
    if (ti.size != f.size && ti.error != "file missing") { violation("C14", "file_size", "%s: table %llu is %zu bytes on disk, layout says %llu", why, (unsigned long long)f.number, ti.size, (unsigned long long)f.size); return; }
    if (!ti.ok) { violation("C14", "table_decode", "%s: independent reader cannot decode table %llu: %s", why, (unsigned long long)f.number, ti.error.c_str()); return; }
    if (!ti.sorted) { violation("C14", "table_order", "%s: table %llu: %s", why, (unsigned long long)f.number, ti.sort_err.c_str()); return; }
    if (ti.entries == 0) { violation("C14", "table_empty", "%s: table %llu has no entries", why, (unsigned long long)f.number); return; }
    IKey lo{f.smallest_user, f.smallest_seq, f.smallest_type}, hi{f.largest_user, f.largest_seq, f.largest_type};
    if (ikey_compare(kc, lo, ti.first) != 0 || lo.user != ti.first.user)
      { violation("C14", "bounds", "%s: table %llu: stated smallest %s@%llu but first entry is %s@%llu", why, (unsigned long long)f.number, printable(lo.user).c_str(), (unsigned long long)lo.seq, printable(ti.first.user).c_str(), (unsigned long long)ti.first.seq); return; }
    if (ikey_compare(kc, hi, ti.last) != 0 || hi.user != ti.last.user)
      { violation("C14", "bounds", "%s: table %llu: stated largest %s@%llu but last entry is %s@%llu", why, (unsigned long long)f.number, printable(hi.user).c_str(), (unsigned long long)hi.seq, printable(ti.last.user).c_str(), (unsigned long long)ti.last.seq); return; }
  }
  // levels >= 1 sorted and disjoint (internal key order), as listed
  for (size_t i = 1; i < files.size(); i++) {
    const SstFile &a = files[i - 1], &b = files[i];
    if (a.level != b.level || a.level == 0) continue;
    IKey al{a.largest_user, a.largest_seq, a.largest_type}, bs{b.smallest_user, b.smallest_seq, b.smallest_type};
    if (ikey_compare(kc, al, bs) >= 0) { violation("C14", "level_overlap", "%s: level %d: table %llu [..%s@%llu] is not strictly before table %llu [%s@%llu..]", why, a.level, (unsigned long long)a.number, printable(al.user).c_str(), (unsigned long long)al.seq, (unsigned long long)b.number, printable(bs.user).c_str(), (unsigned long long)bs.seq); return; }
  }
  // age order per user key: newer level-0 files (higher number) and shallower levels hold strictly newer versions
  std::vector<const SstFile *> l0;
  for (auto &f : files) if (f.level == 0) l0.push_back(&f);
  std::sort(l0.begin(), l0.end(), [](const SstFile *a, const SstFile *b) { return a->number > b->number; });
  struct Span { int rank; uint64_t lo, hi; uint64_t file; };
  std::map<string, std::vector<Span>> per_key;
  int rank = 0;
  for (auto *f : l0) {
    const TableInfo &ti = table_info(table_path(dir, f->number), kc);
    for (auto &ks : ti.keyseq) per_key[ks.first].push_back({rank, ks.second.first, ks.second.second, f->number});
    rank++;
  }
  for (auto &f : files) {
    if (f.level == 0) continue;
    const TableInfo &ti = table_info(table_path(dir, f.number), kc);
    int rk = rank + f.level;
    for (auto &ks : ti.keyseq) {
      auto &v = per_key[ks.first];
      if (!v.empty() && v.back().rank == rk) { v.back().lo = std::min(v.back().lo, ks.second.first); v.back().hi = std::max(v.back().hi, ks.second.second); }
      else v.push_back({rk, ks.second.first, ks.second.second, f.number});
    }
  }
  for (auto &pk : per_key) {
    auto &v = pk.second;
    std::stable_sort(v.begin(), v.end(), [](const Span &a, const Span &b) { return a.rank < b.rank; });
    for (size_t i = 1; i < v.size(); i++)
      if (v[i].hi >= v[i - 1].lo) { violation("C14", "age_order", "%s: user key %s: table %llu (older position) holds sequence %llu which is not older than sequence %llu in table %llu (newer position)", why, printable(pk.first).c_str(), (unsigned long long)v[i].file, (unsigned long long)v[i].hi, (unsigned long long)v[i - 1].lo, (unsigned long long)v[i - 1].file); return; }
  }
  count("tables_cross_checked", files.size());
  { uint64_t per[7] = {0}, h = 17; for (auto &f : files) if (f.level >= 0 && f.level < 7) per[f.level]++; for (int l = 0; l < 7; l++) h = mix64(h, per[l]); g_out->shapes.insert(h); }
}

// ------------------------------------------------------------------ C17
bool decode_manifest(const string &dir, ref::VersionState *st, string *err, string *mname) {
  string cur;
  if (!simfs::read_file(dir + "/CURRENT", &cur)) { *err = "CURRENT missing"; return false; }
  if (cur.empty() || cur[cur.size() - 1] != '\n') { *err = "CURRENT does not end with a newline: '" + printable(cur) + "'"; return false; }
  string name = cur.substr(0, cur.size() - 1);
  if (mname) *mname = name;
  string data;
  if (!simfs::read_file(dir + "/" + name, &data)) { *err = "CURRENT names " + name + " which does not exist"; return false; }
  ref::LogDecode ld = ref::log_decode(data);
  if (!ld.problems.empty()) { *err = "MANIFEST framing: " + ld.problems[0]; return false; }
  if (ld.records.empty()) { *err = "MANIFEST has no complete record"; return false; }
  for (size_t i = 0; i < ld.records.size(); i++) {
    ref::Edit e;
    if (!ref::edit_decode(ld.records[i].data, &e)) { *err = "MANIFEST record " + std::to_string(i) + " does not decode as a version edit"; return false; }
    if (ref::edit_encode(e) != ld.records[i].data) { *err = "MANIFEST record " + std::to_string(i) + " is not in the canonical field order/encoding"; return false; }
    string aerr;
    if (!st->apply(e, &aerr)) { *err = "MANIFEST record " + std::to_string(i) + ": " + aerr; return false; }
  }
  return true;
}

bool check_manifest_replay(const string &dir, const std::vector<SstFile> &files, int cmp_type, const char *why, ref::VersionState *out) {
  ref::VersionState st;
  string err, mname;
  if (!decode_manifest(dir, &st, &err, &mname)) { violation("C17", "manifest_decode", "%s: %s", why, err.c_str()); return false; }
  static const char *names[] = {"leveldb.BytewiseComparator", "sim.Reverse", "sim.LengthFirst", "sim.CaseInsensitive"};
  if (st.cmp != names[cmp_type]) violation("C17", "comparator_name", "%s: MANIFEST records comparator '%s', database uses '%s'", why, st.cmp.c_str(), names[cmp_type]);
  size_t nfiles = 0;
  for (int l = 0; l < 7; l++) nfiles += st.files[l].size();
  if (nfiles != files.size()) { violation("C17", "replay_fileset", "%s: replaying %s gives %zu files, lcdb reports %zu", why, mname.c_str(), nfiles, files.size()); return false; }
  uint64_t maxnum = 0;
  for (auto &f : files) {
    auto it = st.files[f.level].find(f.number);
    if (it == st.files[f.level].end()) { violation("C17", "replay_fileset", "%s: lcdb reports table %llu at level %d, the MANIFEST replay does not", why, (unsigned long long)f.number, f.level); return false; }
    const ref::FileMeta &m = it->second;
    if (m.size != f.size) { violation("C17", "replay_filemeta", "%s: table %llu: MANIFEST size %llu, reported %llu", why, (unsigned long long)f.number, (unsigned long long)m.size, (unsigned long long)f.size); return false; }
    if (m.smallest != ref::ikey_make(f.smallest_user, f.smallest_seq, f.smallest_type) || m.largest != ref::ikey_make(f.largest_user, f.largest_seq, f.largest_type)) { violation("C17", "replay_filemeta", "%s: table %llu: key bounds in the MANIFEST differ from the reported ones", why, (unsigned long long)f.number); return false; }
    maxnum = std::max(maxnum, f.number);
    if (f.largest_seq > st.seq || f.smallest_seq > st.seq) violation("C17", "counter_sequence", "%s: table %llu holds sequence %llu above the recorded last sequence %llu", why, (unsigned long long)f.number, (unsigned long long)std::max(f.largest_seq, f.smallest_seq), (unsigned long long)st.seq);
  }
  // counters: the next file number is above every numbered file in the directory
  for (auto &n : simfs::list_dir(dir)) {
    uint64_t num; int fc;
    if (!parse_db_filename(n, &num, &fc)) continue;
    if ((fc == simfs::FC_TABLE || fc == simfs::FC_LOG || fc == simfs::FC_MANIFEST) && num >= st.next && !(fc == simfs::FC_LOG && num >= st.log)) // logs not yet recorded are re-marked at recovery
      violation("C17", "counter_next_file", "%s: %s exists but the MANIFEST's next file number is %llu", why, n.c_str(), (unsigned long long)st.next);
  }
  if (out) *out = st;
  return true;
}

// ------------------------------------------------------------------ C13 (c)
void check_no_leaks(const string &dir, const std::vector<SstFile> &files, const char *why) {
  ref::VersionState st;
  string err, mname;
  if (!decode_manifest(dir, &st, &err, &mname)) { violation("C17", "manifest_decode", "%s: %s", why, err.c_str()); return; }
  std::set<uint64_t> live;
  for (auto &f : files) live.insert(f.number);
  for (auto &n : simfs::list_dir(dir)) {
    uint64_t num; int fc;
    if (!parse_db_filename(n, &num, &fc)) continue; // foreign file
    bool ok = true;
    switch (fc) {
      case simfs::FC_TABLE: ok = live.count(num) != 0; break;
      case simfs::FC_LOG: ok = num >= st.log || num == st.prev; break;
      case simfs::FC_MANIFEST: ok = (n == mname); break;
      case simfs::FC_TEMP: ok = false; break;
      default: break;
    }
    if (!ok) {
      string ls, lv;
      for (auto &x : simfs::list_dir(dir)) ls += " " + x;
      for (auto &f : files) lv += " " + std::to_string(f.number) + "@L" + std::to_string(f.level);
      violation("C13", "leak", "%s: %s is in the directory although nothing references it (live tables:%s; log number %llu; manifest %s; directory:%s)", why, n.c_str(), lv.c_str(), (unsigned long long)st.log, mname.c_str(), ls.c_str());
      return;
    }
  }
  for (auto &f : files)
    if (!simfs::exists(table_path(dir, f.number))) { violation("C13", "live_file_missing", "%s: table %llu is live but missing from the directory", why, (unsigned long long)f.number); return; }
  count("leak_checks");
}
