// TSan variant only: every lcdb API function the harness calls is wrapped so
// that TSan's "ignore reads/writes" (on while harness code runs) is switched
// off for the duration of the call.  See harness_scope.h.
#ifdef LSIM_TSAN
#include "harness_scope.h"
#include "lsim.h"

struct Unignore { int d; Unignore() : d(sim::harness_suspend()) {} ~Unignore() { sim::harness_resume(d); } };

#define W(ret, name, params, args) \
  extern "C" ret __real_##name params; \
  extern "C" ret __wrap_##name params { Unignore u_; return __real_##name args; }
#define WV(name, params, args) \
  extern "C" void __real_##name params; \
  extern "C" void __wrap_##name params { Unignore u_; __real_##name args; }

W(int, ldb_open, (const char *a, const ldb_dbopt_t *b, ldb_t **c), (a, b, c))
WV(ldb_close, (ldb_t *a), (a))
W(int, ldb_get, (ldb_t *a, const ldb_slice_t *b, ldb_slice_t *c, const ldb_readopt_t *d), (a, b, c, d))
W(int, ldb_has, (ldb_t *a, const ldb_slice_t *b, const ldb_readopt_t *c), (a, b, c))
W(int, ldb_put, (ldb_t *a, const ldb_slice_t *b, const ldb_slice_t *c, const ldb_writeopt_t *d), (a, b, c, d))
W(int, ldb_del, (ldb_t *a, const ldb_slice_t *b, const ldb_writeopt_t *c), (a, b, c))
W(int, ldb_write, (ldb_t *a, ldb_batch_t *b, const ldb_writeopt_t *c), (a, b, c))
W(const ldb_snapshot_t *, ldb_snapshot, (ldb_t *a), (a))
WV(ldb_release, (ldb_t *a, const ldb_snapshot_t *b), (a, b))
W(ldb_iter_t *, ldb_iterator, (ldb_t *a, const ldb_readopt_t *b), (a, b))
W(int, ldb_property, (ldb_t *a, const char *b, char **c), (a, b, c))
WV(ldb_approximate_sizes, (ldb_t *a, const ldb_range_t *b, size_t c, ldb_uint64_t *d), (a, b, c, d))
WV(ldb_compact, (ldb_t *a, const ldb_slice_t *b, const ldb_slice_t *c), (a, b, c))
W(int, ldb_backup, (ldb_t *a, const char *b), (a, b))
W(int, ldb_repair, (const char *a, const ldb_dbopt_t *b), (a, b))
W(int, ldb_copy, (const char *a, const char *b, const ldb_dbopt_t *c), (a, b, c))
W(int, ldb_destroy, (const char *a, const ldb_dbopt_t *b), (a, b))
W(int, ldb_test_compact_memtable, (ldb_t *a), (a))
WV(ldb_test_compact_range, (ldb_t *a, int b, const ldb_slice_t *c, const ldb_slice_t *d), (a, b, c, d))
WV(ldb_iter_destroy, (ldb_iter_t *a), (a))
W(int, ldb_iter_valid, (const ldb_iter_t *a), (a))
WV(ldb_iter_first, (ldb_iter_t *a), (a))
WV(ldb_iter_last, (ldb_iter_t *a), (a))
WV(ldb_iter_seek, (ldb_iter_t *a, const ldb_slice_t *b), (a, b))
WV(ldb_iter_next, (ldb_iter_t *a), (a))
WV(ldb_iter_prev, (ldb_iter_t *a), (a))
W(ldb_slice_t, ldb_iter_key, (const ldb_iter_t *a), (a))
W(ldb_slice_t, ldb_iter_value, (const ldb_iter_t *a), (a))
W(int, ldb_iter_status, (const ldb_iter_t *a), (a))
WV(ldb_iter_seek_ge, (ldb_iter_t *a, const ldb_slice_t *b), (a, b))
WV(ldb_iter_seek_gt, (ldb_iter_t *a, const ldb_slice_t *b), (a, b))
WV(ldb_iter_seek_le, (ldb_iter_t *a, const ldb_slice_t *b), (a, b))
WV(ldb_iter_seek_lt, (ldb_iter_t *a, const ldb_slice_t *b), (a, b))
W(ldb_lru_t *, ldb_lru_create, (size_t a), (a))
WV(ldb_lru_destroy, (ldb_lru_t *a), (a))
#endif
