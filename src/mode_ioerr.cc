// ioerr-mode (C12): one plan is first executed fault-free while every libc file
// call is counted per (call kind, file class); then fault sites are enumerated
// (kind x class x ordinal x errno x one-shot/persistent/partial) and the same plan
// is re-executed once per site with that single fault armed.  After the plan the
// faults are cleared, the database is closed or killed, reopened and compared.
#include "lsim.h"
#include "monitors.h"
#include <algorithm>
#include <errno.h>
#include <stdio.h>
#include <string.h>

namespace {

struct B { int opidx; std::vector<Upd> ups; string marker; int rc = -1; bool issued = false; };

string marker_key(int n) { char b[32]; snprintf(b, sizeof b, "m/%06d", n); return string(1, '\0') + b; }
bool is_marker(const string &k) { return k.size() > 2 && k[0] == '\0' && k[1] == 'm'; }
typedef std::map<string, string> Contents;

struct Site { simfs::FaultRule rule; bool kill_at_end; };

string site_str(const Site &s) {
  char b[200];
  snprintf(b, sizeof b, "%s on %s file, call #%d, errno %d, %s%s; then %s", simfs::call_name[s.rule.call], simfs::fclass_name[s.rule.fclass], s.rule.nth, s.rule.err,
           s.rule.persistent ? "persistent" : "one-shot", s.rule.partial ? ", after a partial write" : "", s.kill_at_end ? "kill+reopen" : "close+reopen");
  return b;
}

struct Burst { ldb_t *db; B *b; int sync; };
void burst_thread(void *arg) {
  Burst *t = (Burst *)arg;
  t->b->issued = true;
  t->b->rc = db_write(t->db, t->b->ups, t->sync);
}

// Runs the plan in directory dir.  site == nullptr: fault-free counting run.
// One fault while the database is being created.  The failed ldb_open must report an error (or succeed), must not
// crash or hang, and a later fault-free ldb_open of the same directory must give an empty, writable database.
void run_create(const Plan &p, const string &dir, const Site &site) {
  string where = "while the database is being created: " + site_str(site);
  sim::budget_reset();
  simfs::clear_faults();
  simfs::fired().clear();
  memset(&simfs::counters(), 0, sizeof(simfs::Counters));
  simfs::arm(site.rule);
  ldb_t *db = nullptr;
  { DbOptions opt; opt.set(p.cfg, true);
    int rc = ldb_open(dir.c_str(), &opt.o, &db);
    bool fired = !simfs::fired().empty();
    if (rc != LDB_OK) { db = nullptr; if (!fired) violation("C12", "spurious_error", "%s: ldb_open fails with %s although no fault fired", where.c_str(), rcname(rc)); }
    if (fired) probe("fault_runs_fired_at_create");
    if (db) { Upd u; u.key = "created"; u.tag = 1; u.len = 10; int wrc = db_write(db, {u}, 1); ldb_close(db); db = nullptr; sim::drain(); if (wrc != LDB_OK && !fired) violation("C12", "spurious_error", "%s: first write fails with %s", where.c_str(), rcname(wrc)); if (wrc == LDB_OK) probe("create_survived_fault"); else { simfs::clear_faults(); return; } simfs::clear_faults();
      DbOptions o2; o2.set(p.cfg, false); int orc = ldb_open(dir.c_str(), &o2.o, &db);
      if (orc != LDB_OK) { violation("C12", "reopen_failed", "%s: ldb_open returned OK and a synced write was acknowledged, but with the fault cleared the database cannot be reopened (%s)", where.c_str(), rcname(orc)); return; }
      string v; if (db_get(db, "created", &v, nullptr, 1, 1) != LDB_OK) violation("C12", "acked_lost", "%s: the write acknowledged after the faulty creation is missing after reopen", where.c_str());
      ldb_close(db); sim::drain(); return; }
  }
  simfs::clear_faults();
  sim::drain();
  if (failed()) return;
  DbOptions opt; opt.set(p.cfg, true);
  int rc = ldb_open(dir.c_str(), &opt.o, &db);
  if (rc != LDB_OK) { violation("C12", "create_retry_failed", "%s: after the failed creation, a fault-free ldb_open with create_if_missing fails with %s", where.c_str(), rcname(rc)); return; }
  std::vector<std::pair<string, string>> rows;
  int src = db_scan(db, &rows, nullptr, 1);
  if (src != LDB_OK || !rows.empty()) violation("C12", "create_retry_contents", "%s: the database created by the retry is not empty (%zu entries, scan %s)", where.c_str(), rows.size(), rcname(src));
  Upd u; u.key = "created"; u.tag = 1; u.len = 10;
  if (!failed() && db_write(db, {u}, 0) != LDB_OK) violation("C12", "create_retry_unwritable", "%s: the database created by the retry refuses a write", where.c_str());
  ldb_close(db);
  sim::drain();
  count("create_fault_runs");
}

void run_once(const Plan &p, const string &dir, const Site *site, simfs::Counters *counts_out, simfs::Counters *create_counts_out = nullptr) {
  std::vector<B> bs;
  for (size_t i = 0; i < p.ops.size(); i++) if (p.ops[i].kind == O_WRITE && !p.ops[i].ups.empty() && is_marker(p.ops[i].ups[0].key)) { B b; b.opidx = (int)i; b.ups = p.ops[i].ups; b.marker = b.ups[0].key; bs.push_back(b); }
  string where = site ? site_str(*site) : string("fault-free");
  sim::budget_reset();
  simfs::clear_faults();
  simfs::fired().clear();
  DbOptions opt; opt.default_info_log = p.geti("default_log", 0) != 0; opt.set(p.cfg, true); // lcdb's own LOG / LOG.old, also subject to faults
  ldb_t *db = nullptr;
  int rc = ldb_open(dir.c_str(), &opt.o, &db);
  if (rc != LDB_OK) { violation("C12", "open_failed", "creating the database failed without any fault: %s", rcname(rc)); return; }
  if (create_counts_out) *create_counts_out = simfs::counters();
  memset(&simfs::counters(), 0, sizeof(simfs::Counters)); // ordinals count calls made after the database exists
  if (site) simfs::arm(site->rule);
  Contents acked; // what reads must see during the session
  bool any_fault = false;
  size_t bi = 0;
  for (size_t i = 0; i < p.ops.size() && !failed() && db; i++) {
    const Op &o = p.ops[i];
    simfs::set_current_op((int)i);
    size_t fired0 = simfs::fired().size();
    switch (o.kind) {
      case O_WRITE: {
        while (bi < bs.size() && bs[bi].opidx < (int)i) bi++;
        if (bi >= bs.size() || bs[bi].opidx != (int)i) break;
        if (o.b > 0) {
          // a burst: consecutive batches with the same burst id are issued by concurrent callers (group commit); they
          // write disjoint keys, so every serial order gives the same contents
          std::vector<Burst> th;
          size_t j = i, bj = bi;
          while (j < p.ops.size() && p.ops[j].kind == O_WRITE && p.ops[j].b == o.b && bj < bs.size() && bs[bj].opidx == (int)j) { Burst t; t.db = db; t.b = &bs[bj]; t.sync = p.ops[j].sync; th.push_back(t); j++; bj++; }
          std::vector<int> tids;
          for (size_t q = 1; q < th.size(); q++) tids.push_back(sim::spawn(burst_thread, &th[q]));
          burst_thread(&th[0]);
          for (int t : tids) sim::join(t);
          any_fault = any_fault || !simfs::fired().empty();
          for (auto &t : th) {
            if (t.b->rc == LDB_OK) { for (auto &u : t.b->ups) { if (u.del) acked.erase(u.key); else acked[u.key] = mkval(u.tag, u.len, u.fill); } }
            else if (!any_fault) violation("C12", "spurious_error", "%s: a concurrent write returns %s although no fault has been injected yet", where.c_str(), rcname(t.b->rc));
          }
          probe("concurrent_write_bursts");
          i = j - 1; bi = bj - 1;
          break;
        }
        B &b = bs[bi];
        b.rc = db_write(db, b.ups, o.sync);
        b.issued = true;
        any_fault = any_fault || !simfs::fired().empty();
        if (b.rc == LDB_OK) { for (auto &u : b.ups) { if (u.del) acked.erase(u.key); else acked[u.key] = mkval(u.tag, u.len, u.fill); } }
        else if (!any_fault) violation("C12", "spurious_error", "%s: write returns %s although no fault has been injected yet", where.c_str(), rcname(b.rc));
        break;
      }
      case O_GET: {
        string v;
        int grc = db_get(db, o.key, &v, nullptr, p.cfg.verify, p.cfg.fillc);
        bool fault_in_op = simfs::fired().size() > fired0;
        auto it = acked.find(o.key);
        count("reads_under_faults");
        if (grc == LDB_OK) { if (it == acked.end() || it->second != v) violation("C12", "wrong_read", "%s: get(%s) returns %s, expected %s", where.c_str(), printable(o.key).c_str(), printable(v).c_str(), it == acked.end() ? "NOTFOUND" : printable(it->second).c_str()); }
        else if (grc == LDB_NOTFOUND) { if (it != acked.end()) violation("C12", "wrong_read", "%s: get(%s) returns NOTFOUND for a key whose write was acknowledged (fault during this call: %d)", where.c_str(), printable(o.key).c_str(), (int)fault_in_op); }
        else if (!fault_in_op) violation("C12", "read_error_without_fault", "%s: get(%s) returns %s although no call failed during it", where.c_str(), printable(o.key).c_str(), rcname(grc));
        break;
      }
      case O_FLUSH: { int frc = ldb_test_compact_memtable(db); any_fault = any_fault || !simfs::fired().empty(); if (frc != LDB_OK && !any_fault) violation("C12", "spurious_error", "%s: flush returns %s without any fault", where.c_str(), rcname(frc)); break; }
      case O_COMPACT_RANGE: ldb_test_compact_range(db, o.a < 0 ? 0 : o.a > 5 ? 5 : o.a, NULL, NULL); break;
      case O_ITER_NEW: {
        std::vector<std::pair<string, string>> rows;
        int src = db_scan(db, &rows, nullptr, p.cfg.verify);
        bool fault_in_op = simfs::fired().size() > fired0;
        if (src == LDB_OK) {
          Contents got(rows.begin(), rows.end());
          if (got != acked) violation("C12", "wrong_scan", "%s: a scan with OK status yields %zu entries, the acknowledged state has %zu", where.c_str(), got.size(), acked.size());
        } else {
          if (!fault_in_op) violation("C12", "read_error_without_fault", "%s: scan reports %s although no call failed during it", where.c_str(), rcname(src));
          // a scan that reports an error may stop short or expose an older version (an unreadable newer file is skipped by
          // the merge and the error is reported through the status), but it never invents data
          for (auto &kv : rows) {
            bool written = false;
            for (auto &b : bs) { if (!b.issued) break; for (auto &u : b.ups) if (!u.del && u.key == kv.first && mkval(u.tag, u.len, u.fill) == kv.second) written = true; }
            if (!written) { violation("C12", "wrong_scan", "%s: a scan that ended with an error yielded %s=%s, which was never written", where.c_str(), printable(kv.first).c_str(), printable(kv.second).c_str()); break; }
          }
        }
        break;
      }
      case O_BACKUP: {
        // a backup taken while calls may fail: either it reports an error, or it is an openable database holding the session's state
        string bd = dir + "_bak" + std::to_string(i);
        int brc = ldb_backup(db, bd.c_str());
        bool fault_in_op = simfs::fired().size() > fired0;
        any_fault = any_fault || !simfs::fired().empty();
        probe("backups_under_faults");
        if (brc != LDB_OK) { if (!any_fault) violation("C12", "spurious_error", "%s: backup returns %s without any fault", where.c_str(), rcname(brc)); break; }
        // read the copy with faults suspended (they belong to the source's history, not to this inspection)
        std::vector<simfs::FaultRule> saved = simfs::rules();
        simfs::rules().clear();
        {
          DbOptions bo; bo.set(p.cfg, false);
          ldb_t *b = nullptr;
          int orc = ldb_open(bd.c_str(), &bo.o, &b);
          if (orc != LDB_OK) violation("C12", "backup_unusable", "%s: ldb_backup returned OK%s but the copy cannot be opened: %s", where.c_str(), fault_in_op ? " although a call failed during it" : "", rcname(orc));
          else {
            std::vector<std::pair<string, string>> rows;
            int src = db_scan(b, &rows, nullptr, 1);
            Contents got(rows.begin(), rows.end());
            if (src != LDB_OK || got != acked) violation("C12", "backup_contents", "%s: ldb_backup returned OK but the copy holds %zu entries (scan %s), the source's acknowledged state has %zu", where.c_str(), got.size(), rcname(src), acked.size());
            ldb_close(b);
            sim::drain();
          }
        }
        simfs::rules() = saved;
        simfs::remove_tree(bd);
        break;
      }
      case O_REOPEN: {
        ldb_close(db); db = nullptr;
        sim::drain();
        opt.set(p.cfg, true);
        int orc = ldb_open(dir.c_str(), &opt.o, &db);
        any_fault = any_fault || !simfs::fired().empty();
        if (orc != LDB_OK) {
          db = nullptr;
          if (!any_fault) violation("C12", "open_failed", "%s: reopen failed with %s without any fault", where.c_str(), rcname(orc));
        } else {
          // a session boundary: every acknowledged batch must still be there; failed ("maybe") batches may have become visible
          std::vector<std::pair<string, string>> rows;
          if (db_scan(db, &rows, nullptr, 0) == LDB_OK) {
            Contents got, want; std::set<string> S;
            for (auto &kv : rows) { got[kv.first] = kv.second; if (is_marker(kv.first)) S.insert(kv.first); }
            for (auto &b : bs) {
              if (!b.issued) continue;
              bool in = S.count(b.marker) != 0;
              if (b.rc == LDB_OK && !in) { violation("C12", "acked_lost", "%s: batch %s was acknowledged (OK) but is missing after a close and reopen in the middle of the plan (reopen returned OK)", where.c_str(), printable(b.marker).c_str()); break; }
              if (in) for (auto &u : b.ups) { if (u.del) want.erase(u.key); else want[u.key] = mkval(u.tag, u.len, u.fill); }
            }
            if (!failed() && want != got) violation("C12", "contents_not_fold", "%s: contents after a mid-plan reopen (%zu keys) are not the fold of the surviving whole batches (%zu keys)", where.c_str(), got.size(), want.size());
            acked = got;
          }
        }
        break;
      }
      default: break;
    }
    any_fault = any_fault || !simfs::fired().empty();
  }
  if (counts_out) *counts_out = simfs::counters();
  bool fired_any = !simfs::fired().empty();
  if (site && fired_any) { probe("fault_runs_fired"); }
  // faults stop; close or kill; reopen; compare
  simfs::clear_faults();
  string rdir = dir;
  if (site && site->kill_at_end && db) {
    rdir = dir + "_k";
    simfs::copy_tree(dir, rdir);
    simfs::remove_file(rdir + "/LOCK");
    probe("crash:kill_image");
  }
  if (db) { ldb_close(db); db = nullptr; }
  sim::drain();
  if (failed()) return;
  Config c2 = p.cfg; c2.paranoid = site ? (site->rule.nth & 1) : p.cfg.paranoid;
  DbOptions opt2; opt2.set(c2, false);
  rc = ldb_open(rdir.c_str(), &opt2.o, &db);
  if (rc != LDB_OK) {
    bool created = simfs::exists(rdir + "/CURRENT");
    size_t nack = 0; for (auto &b : bs) if (b.rc == LDB_OK) nack++;
    string ls;
    for (auto &x : simfs::list_dir(rdir)) ls += " " + x;
    ref::VersionState st; string merr, mname;
    if (decode_manifest(rdir, &st, &merr, &mname)) { ls += " | " + mname + " names tables:"; for (int l = 0; l < 7; l++) for (auto &f : st.files[l]) ls += " " + std::to_string(f.first) + "@L" + std::to_string(l); ls += " log>=" + std::to_string(st.log); }
    else ls += " | manifest: " + merr;
    if (created || nack > 0) violation("C12", "reopen_failed", "%s: with the fault cleared the database cannot be reopened (%s, paranoid_checks=%d); %zu acknowledged batches are unreachable; directory:%s", where.c_str(), rcname(rc), c2.paranoid, nack, ls.c_str());
    return;
  }
  std::vector<std::pair<string, string>> rows;
  rc = db_scan(db, &rows, nullptr, 1);
  ldb_close(db);
  sim::drain();
  if (rc != LDB_OK) { violation("C12", "scan_status", "%s: scan after reopen reports %s", where.c_str(), rcname(rc)); return; }
  Contents got; std::set<string> S;
  for (auto &kv : rows) { got[kv.first] = kv.second; if (is_marker(kv.first)) S.insert(kv.first); }
  Contents want;
  for (auto &b : bs) {
    bool in = S.count(b.marker) != 0;
    if (b.rc == LDB_OK && !in) { violation("C12", "acked_lost", "%s: batch %s was acknowledged (OK) but is missing after %s and reopen with the fault cleared", where.c_str(), printable(b.marker).c_str(), site && site->kill_at_end ? "kill" : "close"); return; }
    if (in && !b.issued) { violation("C12", "unissued_batch", "%s: batch %s was never issued but is present", where.c_str(), printable(b.marker).c_str()); return; }
    if (in) for (auto &u : b.ups) { if (u.del) want.erase(u.key); else want[u.key] = mkval(u.tag, u.len, u.fill); }
  }
  if (want != got) { violation("C12", "contents_not_fold", "%s: contents after reopen (%zu keys) are not the fold of the surviving whole batches (%zu keys): a batch was applied partially or a wrong value is stored", where.c_str(), got.size(), want.size()); return; }
  count("reopen_compares");
}

} // namespace

Plan gen_ioerr(uint64_t seed, const string &prop) {
  Rng r(mix64(seed, 0x10E44));
  Plan p;
  p.mode = "ioerr"; p.seed = seed;
  p.cfg = random_config(r);
  if (p.cfg.cmp == 3) p.cfg.cmp = 0; // the judges compare maps keyed by byte strings: comparators that equate different strings stay out
  if (r.chance(0.8)) p.cfg.wbs = 65536;
  p.sc = random_sched(r, false);
  p.params["prop"] = prop;
  int nops = r.chance(0.4) ? (int)r.range(4, 12) : (int)r.range(15, 60);
  int nkeys = (int)r.range(3, 12);
  uint64_t tag = 1; int nm = 0;
  bool bursts = r.chance(0.45); int nburst = 0;
  for (int i = 0; i < nops; i++) {
    Op o; int c = (int)r.below(100);
    if (c < 62) {
      o.kind = O_WRITE;
      Upd m; m.key = marker_key(nm++); m.tag = tag++; m.len = 8; o.ups.push_back(m);
      int n = (int)r.range(1, 4);
      for (int q = 0; q < n; q++) { Upd u; char kb[32]; snprintf(kb, sizeof kb, "k%03d", (int)r.below(nkeys)); u.key = kb; u.del = r.chance(0.2); if (!u.del) { u.tag = tag++; u.fill = (int)r.below(2); int lc = (int)r.below(100); u.len = lc < 75 ? (uint32_t)r.range(100, 3000) : lc < 95 ? (uint32_t)r.range(3000, 20000) : (uint32_t)r.range(40000, 90000); } o.ups.push_back(u); }
      o.sync = r.chance(0.25);
    } else if (c < 74) { o.kind = O_GET; char kb[32]; snprintf(kb, sizeof kb, "k%03d", (int)r.below(nkeys)); o.key = kb; }
    else if (c < 83) o.kind = O_FLUSH;
    else if (c < 90) { o.kind = O_COMPACT_RANGE; o.a = (int)r.below(3); }
    else if (c < 94) o.kind = O_ITER_NEW;
    else if (c < 97) o.kind = O_BACKUP;
    else o.kind = O_REOPEN;
    p.ops.push_back(o);
    if (bursts && r.chance(0.12)) { // 2-4 concurrent callers, each with a marker and keys of its own
      int k = (int)r.range(2, 4); nburst++;
      for (int t = 0; t < k; t++) {
        Op w; w.kind = O_WRITE; w.tid = t; w.b = nburst; w.sync = r.chance(0.3);
        Upd m; m.key = marker_key(nm++); m.tag = tag++; m.len = 8; w.ups.push_back(m);
        int n = (int)r.range(1, 3);
        for (int q = 0; q < n; q++) { Upd u; char kb[32]; snprintf(kb, sizeof kb, "t%d/%02d", t, (int)r.below(4)); u.key = kb; u.del = r.chance(0.15); if (!u.del) { u.tag = tag++; u.fill = (int)r.below(2); u.len = r.chance(0.8) ? (uint32_t)r.range(50, 2000) : (uint32_t)r.range(20000, 50000); } w.ups.push_back(u); }
        p.ops.push_back(w);
      }
    }
  }
  if (nburst) p.sc = random_sched(r, true);
  p.seti("max_sites", g_thorough ? 400 : g_light ? 14 : nops <= 12 ? 60 : 36);
  p.seti("noise", r.chance(0.4));
  p.seti("default_log", r.chance(0.25));
  p.seti("create_faults", r.chance(0.35) ? (g_thorough ? 40 : 8) : 0);
  return p;
}

void exec_ioerr(const Plan &p, RunOut *out) {
  begin_run(p, out);
  {
    simfs::Counters base, atcreate;
    memset(&atcreate, 0, sizeof atcreate);
    if (p.geti("noise", 0)) { simfs::Noise n; n.short_write = 0.05; n.short_read = 0.05; n.eintr = 0.03; n.seed = p.seed; simfs::set_noise(n); }
    run_once(p, "/sim/r0", nullptr, &base, &atcreate);
    // enumerate fault sites from the counted calls
    std::vector<Site> sites;
    if (!failed()) {
      Rng r(p.seed ^ 0x51735);
      static const int calls[] = {simfs::C_CREAT, simfs::C_OPEN, simfs::C_WRITE, simfs::C_FSYNC, simfs::C_RENAME, simfs::C_UNLINK, simfs::C_CLOSE, simfs::C_MKDIR, simfs::C_LINK, simfs::C_READ, simfs::C_MMAP, simfs::C_OPENDIR}; // the calls the property lists (opendir = open of a directory); stat/access/lseek are not in its fault model
      for (int call : calls)
        for (int fc = 1; fc < simfs::FC_N; fc++) {
          uint64_t n = base.calls[call][fc];
          if (!n || (fc == simfs::FC_INFO && !p.geti("default_log", 0))) continue;
          std::set<int> ords;
          if (n <= 4) for (uint64_t i = 0; i < n; i++) ords.insert((int)i);
          else { ords.insert(0); ords.insert((int)n - 1); ords.insert((int)r.below(n)); ords.insert((int)r.below(n)); }
          for (int nth : ords) {
            Site s;
            s.rule.call = call; s.rule.fclass = fc; s.rule.nth = nth;
            bool wr = call == simfs::C_WRITE || call == simfs::C_CREAT || call == simfs::C_FSYNC || call == simfs::C_MKDIR || call == simfs::C_RENAME;
            int e = (int)r.below(4);
            s.rule.err = wr ? (e < 2 ? ENOSPC : EIO) : (call == simfs::C_OPEN || call == simfs::C_OPENDIR || call == simfs::C_MMAP) ? (e == 0 ? EMFILE : e == 1 ? ENOENT : e == 2 ? EACCES : EIO) : EIO;
            if (call == simfs::C_LINK && e >= 1) s.rule.err = e == 1 ? EXDEV : e == 2 ? EPERM : EMLINK;  // "cannot hard-link here": lcdb falls back to copying the file
            if (call == simfs::C_FSYNC && fc == simfs::FC_DIR && e == 3) s.rule.err = EINVAL;              // directory that cannot be fsynced: tolerated by design
            s.rule.persistent = r.chance(0.4);
            s.rule.partial = (call == simfs::C_WRITE && r.chance(0.4)) ? (int)r.range(100, 900) : 0;
            s.kill_at_end = r.chance(0.5);
            sites.push_back(s);
          }
        }
      size_t maxs = (size_t)p.geti("max_sites", 40);
      while (sites.size() > maxs) sites.erase(sites.begin() + (long)r.below(sites.size()));
    }
    // faults while the database is being created (a few per plan: the creation sequence is the same for every plan of
    // one configuration)
    if (!failed() && p.geti("create_faults", 0)) {
      Rng r(p.seed ^ 0xC4EA7E);
      static const int calls[] = {simfs::C_CREAT, simfs::C_OPEN, simfs::C_WRITE, simfs::C_FSYNC, simfs::C_RENAME, simfs::C_UNLINK, simfs::C_CLOSE, simfs::C_MKDIR, simfs::C_OPENDIR};
      std::vector<Site> cs;
      for (int call : calls) for (int fc = 1; fc < simfs::FC_N; fc++) {
        uint64_t n = atcreate.calls[call][fc];
        if (!n || fc == simfs::FC_INFO) continue;
        for (uint64_t nth = 0; nth < n && nth < 3; nth++) {
          Site s2; s2.rule.call = call; s2.rule.fclass = fc; s2.rule.nth = (int)nth;
          bool wr = call == simfs::C_WRITE || call == simfs::C_CREAT || call == simfs::C_FSYNC || call == simfs::C_MKDIR || call == simfs::C_RENAME;
          s2.rule.err = wr ? (r.chance(0.5) ? ENOSPC : EIO) : (call == simfs::C_OPEN || call == simfs::C_OPENDIR) ? (r.chance(0.5) ? EMFILE : EACCES) : EIO;
          s2.rule.persistent = r.chance(0.3); s2.rule.partial = (call == simfs::C_WRITE && r.chance(0.4)) ? (int)r.range(5, 60) : 0; s2.kill_at_end = false;
          cs.push_back(s2);
        }
      }
      size_t maxc = (size_t)p.geti("create_faults", 0);
      while (cs.size() > maxc) cs.erase(cs.begin() + (long)r.below(cs.size()));
      int ci = 0;
      for (auto &s2 : cs) {
        if (failed()) break;
        string d = "/sim/c" + std::to_string(ci++);
        run_create(p, d, s2);
        for (auto &f : simfs::fired()) out->probes[string("fault_at_create:") + simfs::call_name[f.call] + ":" + simfs::fclass_name[f.fclass]]++;
        simfs::fired().clear();
        simfs::remove_tree(d);
      }
    }
    count("fault_sites_enumerated", sites.size());
    int idx = 1;
    for (auto &s : sites) {
      if (failed()) break;
      simfs::remove_tree("/sim/r" + std::to_string(idx - 1));
      simfs::remove_tree("/sim/r" + std::to_string(idx - 1) + "_k");
      run_once(p, "/sim/r" + std::to_string(idx), &s, nullptr);
      // fired faults must be attributed before the next sub-run clears them
      for (auto &f : simfs::fired()) out->probes[string("fault:") + simfs::call_name[f.call] + ":" + simfs::fclass_name[f.fclass] + ":" + std::to_string(f.err) + (f.partial ? ":partial" : "")]++;
      simfs::fired().clear();
      count("fault_runs");
      idx++;
    }
    out->nontrivial = out->probes.count("fault_runs_fired") && out->counts["reopen_compares"] > 1;
  }
  end_run(out);
}
