// logfmt-mode (C15, in-family part): the real log writer over the real buffered
// writable file over the simulated file system appends seeded record sequences in
// one or more sessions (log reuse: a later session appends at the current size);
// the bytes are compared with an independent encoder; the real reader then reads
// the file back fault-free, under cuts at chosen bytes (torn tails) and under
// stored-byte damage, and is judged against the property and an independent decoder.
#include "lsim.h"
#include <algorithm>
#include <stdio.h>
#include <string.h>

extern "C" {
int lf_write(const char *path, int mode, const unsigned char **recs, const size_t *lens, size_t n, int sync_each, void (*after)(void *, size_t), void *after_arg);
int lf_read(const char *path, uint64_t initial_offset, void (*on_record)(void *, const unsigned char *, size_t), void (*on_report)(void *, size_t, int), void *arg);
}

namespace {

struct ReadOut { std::vector<string> recs; int reports = 0; size_t dropped = 0; };
void on_rec(void *a, const unsigned char *d, size_t n) { ((ReadOut *)a)->recs.push_back(string((const char *)d, n)); }
void on_rep(void *a, size_t bytes, int) { ((ReadOut *)a)->reports++; ((ReadOut *)a)->dropped += bytes; }

ReadOut read_file_records(const string &path) {
  ReadOut r;
  sim::budget_reset();
  int rc = lf_read(path.c_str(), 0, on_rec, on_rep, &r);
  if (rc != 0) violation("C15", "read_open_failed", "cannot open %s for reading: %s", path.c_str(), rcname(rc));
  count("reads");
  return r;
}

string rec_desc(const string &r) { char b[64]; snprintf(b, sizeof b, "[%zu bytes %s]", r.size(), printable(r, 10).c_str()); return b; }

} // namespace

Plan gen_logfmt(uint64_t seed, const string &prop) {
  Rng r(mix64(seed, 0x106F));
  Plan p;
  p.mode = "logfmt"; p.seed = seed;
  p.sc = random_sched(r, false);
  p.params["prop"] = prop;
  int n = r.chance(0.5) ? (int)r.range(1, 8) : (int)r.range(8, 60);
  bool big = r.chance(0.25);
  uint64_t tag = 1;
  for (int i = 0; i < n; i++) {
    if (i > 0 && r.chance(0.12)) { Op o; o.kind = O_REOPEN; p.ops.push_back(o); }
    Op o; o.kind = O_PUT; o.tag = tag++; o.fill = (int)r.below(2);
    int c = (int)r.below(100);
    static const long edges[] = {32768 - 7, 2 * 32768 - 14, 3 * 32768 - 21, 32768, 65536, 32768 - 7 - 7};
    if (c < 6) o.len = 0;
    else if (c < 12) o.len = (uint32_t)r.range(1, 8);
    else if (c < 55) o.len = (uint32_t)r.range(8, 400);
    else if (c < 75) o.len = (uint32_t)r.range(400, 9000);
    else if (c < 92) { long e = r.pick(edges) + (long)r.range(0, 16) - 8; o.len = (uint32_t)std::max<long>(0, e); }
    else if (big && c >= 97) o.len = (uint32_t)r.range(200000, 1048576);
    else o.len = (uint32_t)r.range(20000, 120000);
    p.ops.push_back(o);
  }
  p.seti("cuts", g_thorough ? 600 : 60); p.seti("damages", g_thorough ? 400 : 60);
  p.seti("noise", r.chance(0.3));
  p.seti("sync_each", r.chance(0.3));
  return p;
}

void exec_logfmt(const Plan &p, RunOut *out) {
  begin_run(p, out);
  {
    simfs::mkdir_p("/sim/lf");
    const string path = "/sim/lf/000001.log", path2 = "/sim/lf/000002.log";
    std::vector<string> written;
    string expect;
    // ---- write in sessions, comparing the bytes on the simulated disk with the independent encoder
    std::vector<string> session;
    int mode = 0, nsessions = 0;
    bool spans_block = false;
    auto flush_session = [&]() {
      if (session.empty() && mode == 1) return;
      std::vector<const unsigned char *> ptrs; std::vector<size_t> lens;
      for (auto &s : session) { ptrs.push_back((const unsigned char *)s.data()); lens.push_back(s.size()); }
      // C03's mechanism: when add_record returns, the whole record has been handed to the operating system (the writer
      // flushes its user-space buffer after every physical record); checked against the reference encoder's length
      struct After { const string *path; const std::vector<string> *session; string enc; } af{&path, &session, expect};
      auto after = [](void *a, size_t i) {
        After *af = (After *)a;
        ref::log_encode(&af->enc, (*af->session)[i]);
        string disk;
        simfs::read_file(*af->path, &disk);
        count("os_visibility_checks");
        if (disk.size() < af->enc.size())
          violation("C03", "record_buffered", "after add_record of record %zu (%zu bytes) returned, the operating system has %zu bytes of the log, the complete record ends at %zu (block offset %zu): a process kill now loses an acknowledged write", i, (*af->session)[i].size(), disk.size(), af->enc.size(), af->enc.size() % ref::LOG_BLOCK);
      };
      int rc = lf_write(path.c_str(), mode, ptrs.data(), lens.data(), session.size(), (int)p.geti("sync_each", 0), after, &af);
      if (rc != 0) { violation("C15", "write_failed", "log writer failed without any fault: %s", rcname(rc)); return; }
      for (auto &s : session) { size_t before = expect.size(); ref::log_encode(&expect, s); if (before / ref::LOG_BLOCK != (expect.size() - 1) / ref::LOG_BLOCK) spans_block = true; written.push_back(s); }
      string disk;
      simfs::read_file(path, &disk);
      if (disk != expect) {
        size_t d = 0; while (d < disk.size() && d < expect.size() && disk[d] == expect[d]) d++;
        violation("C15", "bytes_differ", "after session %d the file (%zu bytes) differs from the reference encoding (%zu bytes) at offset %zu (block offset %zu)", nsessions, disk.size(), expect.size(), d, d % ref::LOG_BLOCK);
      }
      count("byte_compares");
      session.clear(); mode = 1; nsessions++;
    };
    for (auto &o : p.ops) {
      if (failed()) break;
      if (o.kind == O_PUT) session.push_back(mkval(o.tag, o.len, o.fill));
      else if (o.kind == O_REOPEN) flush_session();
    }
    if (!failed()) flush_session();
    if (nsessions > 1) probe("reuse_sessions", (uint64_t)nsessions - 1);
    if (spans_block) probe("record_spans_block");
    ref::LogDecode clean = ref::log_decode(expect);
    if (!failed() && (clean.records.size() != written.size() || !clean.problems.empty()))
      violation("C15", "reference_roundtrip", "reference decoder does not read back the reference encoding (harness defect)");
    // ---- fault-free read back (optionally with short reads)
    if (p.geti("noise", 0)) { simfs::Noise n; n.short_read = 0.2; n.eintr = 0.05; n.seed = p.seed; simfs::set_noise(n); }
    if (!failed()) {
      ReadOut r = read_file_records(path);
      if (r.recs != written) violation("C15", "roundtrip", "fault-free read returns %zu records, %zu were written%s", r.recs.size(), written.size(), r.recs.size() == written.size() ? " (contents differ)" : "");
      else if (r.reports) violation("C15", "spurious_report", "fault-free read calls the reporter %d times", r.reports);
    }
    Rng r(p.seed ^ 0xC07);
    size_t N = expect.size();
    int variants = 0;
    // ---- cuts: exactly the records wholly before the cut, no report
    if (!failed() && N > 0) {
      std::set<size_t> cuts;
      for (size_t o = N > 40 ? N - 40 : 0; o < N; o++) cuts.insert(o);
      for (auto &rec : clean.records) { for (long d = -2; d <= 8; d++) { long c = (long)rec.start + d; if (c >= 0 && (size_t)c < N) cuts.insert((size_t)c); } if (rec.end < N) cuts.insert(rec.end); if (rec.end > 0) cuts.insert(rec.end - 1); }
      for (size_t b = ref::LOG_BLOCK; b < N; b += ref::LOG_BLOCK) for (long d = -8; d <= 8; d++) if ((size_t)((long)b + d) < N) cuts.insert((size_t)((long)b + d));
      size_t maxc = (size_t)p.geti("cuts", 60);
      std::vector<size_t> cv(cuts.begin(), cuts.end());
      while (cv.size() > maxc) cv.erase(cv.begin() + (long)r.below(cv.size()));
      for (int i = 0; i < 10; i++) cv.push_back((size_t)r.below(N));
      for (size_t cut : cv) {
        if (failed()) break;
        simfs::write_file(path2, expect.substr(0, cut));
        ReadOut ro = read_file_records(path2);
        variants++;
        probe("fault:torn_tail_cut");
        size_t want = 0;
        for (auto &rec : clean.records) if (rec.end <= cut) want++;
        bool same = ro.recs.size() == want;
        for (size_t i = 0; same && i < want; i++) if (ro.recs[i] != written[i]) same = false;
        if (!same) violation("C15", "cut_records", "file of %zu bytes cut at byte %zu (block offset %zu): reader returns %zu records, exactly the %zu records wholly before the cut were expected", N, cut, cut % ref::LOG_BLOCK, ro.recs.size(), want);
        else if (ro.reports) violation("C15", "cut_reported", "file cut at byte %zu (a torn tail): reader reports corruption (%d calls, %zu bytes) although nothing but the tail is missing", cut, ro.reports, ro.dropped);
      }
    }
    // physical fragment headers (for damage that starts exactly at a header)
    std::vector<size_t> phys;
    for (size_t q = 0; q + ref::LOG_HEADER <= N;) {
      size_t rem = ref::LOG_BLOCK - q % ref::LOG_BLOCK;
      if (rem < ref::LOG_HEADER) { q += rem; continue; }
      phys.push_back(q);
      q += ref::LOG_HEADER + ((unsigned char)expect[q + 4] | ((size_t)(unsigned char)expect[q + 5] << 8));
    }
    // ---- stored-byte damage
    if (!failed() && N > 0) {
      int nd = (int)p.geti("damages", 60);
      for (int i = 0; i < nd && !failed(); i++) {
        string d = expect;
        size_t off;
        if (r.chance(0.45) && !clean.records.empty()) { auto &rec = clean.records[r.below(clean.records.size())]; off = std::min(N - 1, rec.start + (size_t)r.below(7)); } // header bytes
        else off = (size_t)r.below(N);
        size_t ds = off, de = off + 1;
        int kind = (int)r.below(6);
        const char *kname;
        if (kind == 5) { // multi-byte: zeros from a physical fragment header to the end of its block
          if (phys.empty()) continue;
          off = phys[r.below(phys.size())];
          ds = off; de = std::min(N, (off / ref::LOG_BLOCK + 1) * ref::LOG_BLOCK);
          for (size_t q = ds; q < de; q++) d[q] = 0;
          kname = "zeros to end of block";
        } else {
        switch (kind) {
          case 0: d[off] = (char)(d[off] ^ (1 << r.below(8))); kname = "bit flip"; break;
          case 1: d[off] = 0; kname = "byte=0x00"; break;
          case 2: d[off] = (char)0xFF; kname = "byte=0xFF"; break;
          case 3: { size_t n = (size_t)r.range(2, 8); de = std::min(N, off + n); for (size_t q = off; q < de; q++) d[q] = (char)r.below(256); kname = "multi-byte"; break; }
          default: { ds = off - off % 512; de = std::min(N, ds + 512); for (size_t q = ds; q < de; q++) d[q] = 0; kname = "zeroed sector"; break; }
        }
        }
        if (d == expect) continue;
        while (ds < de && d[ds] == expect[ds]) ds++;
        while (de > ds && d[de - 1] == expect[de - 1]) de--;
        simfs::write_file(path2, d);
        ReadOut ro = read_file_records(path2);
        variants++;
        probe((string("damage:log:") + kname).c_str());
        char where[200];
        snprintf(where, sizeof where, "%s at bytes [%zu,%zu) (block %zu, block offset %zu) of a %zu-byte log with %zu records", kname, ds, de, ds / ref::LOG_BLOCK, ds % ref::LOG_BLOCK, N, written.size());
        // (d) agreement with the independent decoder on which records are intact (it also gives their offsets)
        ref::LogDecode dd = ref::log_decode(d);
        bool same = dd.records.size() == ro.recs.size();
        for (size_t q = 0; same && q < ro.recs.size(); q++) if (dd.records[q].data != ro.recs[q]) same = false;
        if (!same) { violation("C15", "reader_vs_reference", "%s: reader returns %zu records, the independent decoder finds %zu intact records", where, ro.recs.size(), dd.records.size()); break; }
        // (a) nothing invented, order kept: every returned record sits at the offset of a written record and equals it
        std::map<size_t, size_t> by_start;
        for (size_t k = 0; k < clean.records.size(); k++) by_start[clean.records[k].start] = k;
        std::vector<bool> returned(written.size(), false);
        bool invented = false; long prev = -1;
        for (auto &g : dd.records) {
          auto it = by_start.find(g.start);
          if (it == by_start.end() || written[it->second] != g.data || (long)it->second <= prev) { invented = true; violation("C15", "invented_record", "%s: reader returns a record that was not written (or out of order): %s at offset %zu", where, rec_desc(g.data).c_str(), g.start); break; }
          returned[it->second] = true; prev = (long)it->second;
        }
        if (invented) break;
        // (b) records wholly before the damage, and records that begin in a block after the damaged blocks, are returned
        size_t last_dmg_block = (de - 1) / ref::LOG_BLOCK;
        for (size_t k = 0; k < written.size(); k++) {
          const ref::LogRecord &rec = clean.records[k];
          bool must = rec.end <= ds || rec.start >= (last_dmg_block + 1) * ref::LOG_BLOCK;
          if (must && !returned[k]) { violation("C15", rec.end <= ds ? "lost_before_damage" : "no_resume_after_damage", "%s: record %zu (bytes [%zu,%zu)) lies wholly %s but is not returned", where, k, rec.start, rec.end, rec.end <= ds ? "before the damage" : "in later, intact blocks"); break; }
        }
        if (failed()) break;
        // (c) a drop is always reported, unless the damaged file is byte-for-byte a legal torn tail
        bool lost = false; for (bool b : returned) if (!b) lost = true;
        if (lost && ro.reports == 0 && !dd.problems.empty()) { violation("C15", "silent_drop", "%s: %zu of %zu records are lost but the reporter was never called (independent decoder: %s)", where, (size_t)std::count(returned.begin(), returned.end(), false), written.size(), dd.problems[0].c_str()); break; }
        count("damage_checks");
      }
    }
    out->nontrivial = spans_block && variants >= 20;
  }
  end_run(out);
}
