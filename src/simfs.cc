// Simulated file system + libc wrappers.  Only the thread holding the scheduler
// token ever executes here, so no locking is needed.
#ifndef _GNU_SOURCE
#define _GNU_SOURCE 1
#endif
#include "simfs.h"
#include "harness_scope.h"
#include "rng.h"
#include "sched.h"
#include <algorithm>
#include <cerrno>
#include <cstdarg>
#include <cstdio>
#include <cstdlib>
#include <cstring>
#include <dirent.h>
#include <fcntl.h>
#include <set>
#include <sys/mman.h>
#include <sys/resource.h>
#include <sys/select.h>
#include <sys/stat.h>
#include <sys/time.h>
#include <unistd.h>

using std::string;

extern "C" {
int __real_open(const char *, int, ...);
int __real_close(int);
ssize_t __real_read(int, void *, size_t);
ssize_t __real_pread(int, void *, size_t, off_t);
ssize_t __real_write(int, const void *, size_t);
off_t __real_lseek(int, off_t, int);
int __real_fsync(int);
int __real_fdatasync(int);
int __real_rename(const char *, const char *);
int __real_unlink(const char *);
int __real_link(const char *, const char *);
int __real_mkdir(const char *, mode_t);
int __real_rmdir(const char *);
int __real_stat(const char *, struct stat *);
int __real_fstat(int, struct stat *);
int __real_access(const char *, int);
DIR *__real_opendir(const char *);
struct dirent *__real_readdir(DIR *);
int __real_closedir(DIR *);
void *__real_mmap(void *, size_t, int, int, int, off_t);
int __real_munmap(void *, size_t);
int __real_fcntl(int, int, ...);
int __real_getrlimit(int, struct rlimit *);
int __real_gettimeofday(struct timeval *, void *);
int __real_select(int, fd_set *, fd_set *, fd_set *, struct timeval *);
FILE *__real_fdopen(int, const char *);
}

namespace simfs {

const char *jtype_name[] = {"create", "write", "fsync", "fsyncdir", "rename", "unlink", "mkdir", "rmdir", "link", "close"};
const char *fclass_name[] = {"any", "log", "table", "manifest", "current", "temp", "lock", "info", "dir", "other"};
const char *call_name[] = {"any", "open", "creat", "read", "write", "fsync", "rename", "unlink", "close", "mkdir", "rmdir", "link", "mmap", "opendir", "stat", "access", "lseek", "fcntl_lock"};

namespace {

struct Inode {
  uint64_t ino = 0;
  string data;
  bool isdir = false;
  int lock_holder = 0; // 0 none, 1 this process, 2 foreign
};
typedef std::shared_ptr<Inode> IP;
struct OpenFile { IP ino; size_t off = 0; int flags = 0; string path; int pending_err = 0; };
struct SimDir { std::vector<string> ents; size_t i = 0; struct dirent de; };

static std::map<string, IP> names;
static std::map<int, OpenFile> fds;
static int nextfd = 1000;
static uint64_t nextino = 100;
static std::set<void *> simdirs;
static std::map<void *, size_t> maps;
static Journal *rec = nullptr;
static std::vector<FaultRule> g_rules;
static std::vector<FiredFault> g_fired;
static std::vector<FailedCall> g_failed;
static Noise g_noise;
static Rng g_rng(1), g_noise_rng(1);
static Counters g_cnt;
static long g_rlimit = 1024;
static int g_curop[64];

static bool simpath(const char *p) { return p && strncmp(p, "/sim", 4) == 0 && (p[4] == '/' || p[4] == 0); }
static string dirof(const string &p) { size_t i = p.rfind('/'); return i == string::npos || i == 0 ? "/" : p.substr(0, i); }
static string baseof(const string &p) { size_t i = p.rfind('/'); return i == string::npos ? p : p.substr(i + 1); }
static bool under(const string &p, const string &root) { return p.size() > root.size() && p.compare(0, root.size(), root) == 0 && p[root.size()] == '/'; }
static bool recorded(const string &p) { return rec && (p == rec->root || under(p, rec->root)); }
static int curop() { int t = sim::self_tid(); return (t >= 0 && t < 64) ? g_curop[t] : -1; }

static IP new_inode(bool isdir) { IP i = std::make_shared<Inode>(); i->ino = nextino++; i->isdir = isdir; return i; }

static void J(JType t, const string &a, const string &b, uint64_t ino, size_t off = 0, size_t len = 0) {
  if (!rec) return;
  if (!recorded(a) && !(b.size() && recorded(b))) return;
  JEntry e; e.t = t; e.a = a; e.b = b; e.ino = ino; e.off = off; e.len = len;
  e.step = sim::step(); e.tid = sim::self_tid(); e.op = curop();
  rec->e.push_back(std::move(e));
}

// returns errno to inject (0 = none); *partial gets the rule's partial setting
static int check_fault(int call, const string &path, int *partial = nullptr) {
  int fc = classify(path);
  g_cnt.calls[call][fc]++;
  int err = 0;
  for (FaultRule &r : g_rules) {
    if (r.call != C_ANY && r.call != call) continue;
    if (r.fclass != FC_ANY && r.fclass != fc) continue;
    bool fire = false;
    if (r.persistent && r.fired) fire = true;
    else if (!r.fired && r.seen++ == r.nth) fire = true;
    if (fire && !err) {
      r.fired = true; r.fires++;
      err = r.err;
      bool part = (call == C_WRITE && r.partial > 0 && r.fires == 1);
      if (partial) *partial = part ? r.partial : 0;
      FiredFault f; f.call = call; f.fclass = fc; f.err = err; f.path = path; f.step = sim::step(); f.tid = sim::self_tid(); f.op = curop(); f.partial = part;
      g_fired.push_back(f);
    }
  }
  return err;
}

static void note_fail(int call, const string &path, int err) {
  if (g_failed.size() < 4096) { FailedCall f; f.call = call; f.path = path; f.err = err; f.step = sim::step(); f.tid = sim::self_tid(); g_failed.push_back(f); }
}

static bool eintr_noise() {
  if (g_noise.eintr > 0 && g_noise_rng.chance(g_noise.eintr)) { g_cnt.eintrs++; return true; }
  return false;
}

static IP lookup(const string &p) { auto it = names.find(p); return it == names.end() ? IP() : it->second; }

static ssize_t do_write(OpenFile &f, const void *b, size_t n) {
  Inode &ino = *f.ino;
  size_t off = (f.flags & O_APPEND) ? ino.data.size() : f.off;
  if (off != ino.data.size()) { fprintf(stderr, "simfs: non-append write to %s (off %zu size %zu) is not modelled\n", f.path.c_str(), off, ino.data.size()); abort(); }
  ino.data.append((const char *)b, n);
  f.off = off + n;
  g_cnt.bytes_written += n;
  if (rec && recorded(f.path)) {
    string &d = rec->data[ino.ino];
    if (d.size() != off) { // first touch of an inode unknown to the journal (should not happen)
      d = ino.data.substr(0, off);
    }
    d.append((const char *)b, n);
    J(J_WRITE, f.path, "", ino.ino, off, n);
  }
  return (ssize_t)n;
}

} // namespace

int classify(const string &path) {
  string b = baseof(path);
  if (b == "CURRENT") return FC_CURRENT;
  if (b == "LOCK") return FC_LOCK;
  if (b == "LOG" || b == "LOG.old") return FC_INFO;
  if (b.compare(0, 9, "MANIFEST-") == 0) return FC_MANIFEST;
  size_t dot = b.rfind('.');
  if (dot != string::npos) {
    string ext = b.substr(dot + 1);
    if (ext == "log") return FC_LOG;
    if (ext == "ldb" || ext == "sst") return FC_TABLE;
    if (ext == "dbtmp") return FC_TEMP;
  }
  IP i = lookup(path);
  if (i && i->isdir) return FC_DIR;
  return FC_OTHER;
}

string ImageSpec::describe() const {
  char b[128];
  static const char *lp[] = {"synced", "written", "random", "torn-last", "torn-aligned"};
  snprintf(b, sizeof b, "k=%zu dircut=%zu len=%s seed=%llu", k, dircut, lp[lenpolicy], (unsigned long long)seed);
  return b;
}

void reset() {
  names.clear(); fds.clear();
  for (auto &m : maps) free(m.first);
  maps.clear();
  rec = nullptr;
  g_rules.clear(); g_fired.clear(); g_failed.clear();
  g_noise = Noise();
  memset(&g_cnt, 0, sizeof g_cnt);
  memset(g_curop, -1, sizeof g_curop);
  names["/sim"] = new_inode(true);
}
void set_seed(uint64_t seed) { g_rng = Rng(seed ^ 0xF5); g_noise_rng = Rng(seed ^ 0xA015E); }
void set_rlimit_nofile(long n) { g_rlimit = n; }
void mkdir_p(const string &path) {
  for (size_t i = 1; i <= path.size(); i++)
    if (i == path.size() || path[i] == '/') { string p = path.substr(0, i); if (!names.count(p)) names[p] = new_inode(true); }
}
void start_recording(Journal *j, const string &root) {
  rec = j; j->root = root;
  for (auto &kv : names) {
    if (kv.first != root && !under(kv.first, root)) continue;
    if (kv.second->isdir) { j->base_dirs[kv.first] = true; continue; }
    j->base[kv.first] = kv.second->ino;
    j->data[kv.second->ino] = kv.second->data;
    j->base_len[kv.second->ino] = kv.second->data.size();
  }
}
void stop_recording() { rec = nullptr; }
Journal *recording() { return rec; }
void set_current_op(int op) { int t = sim::self_tid(); if (t >= 0 && t < 64) g_curop[t] = op; }
void arm(const FaultRule &r) { g_rules.push_back(r); }
void clear_faults() { g_rules.clear(); for (auto &f : fds) f.second.pending_err = 0; }
std::vector<FaultRule> &rules() { return g_rules; }
std::vector<FiredFault> &fired() { return g_fired; }
std::vector<FailedCall> &failed_calls() { return g_failed; }
void set_noise(const Noise &n) { g_noise = n; g_noise_rng = Rng(n.seed ^ 0xA015E); }
Counters &counters() { return g_cnt; }

bool exists(const string &p) { return names.count(p) != 0; }
bool read_file(const string &p, string *out) { IP i = lookup(p); if (!i || i->isdir) return false; *out = i->data; return true; }
void write_file(const string &p, const string &data) { IP i = new_inode(false); i->data = data; names[p] = i; }
bool remove_file(const string &p) { return names.erase(p) != 0; }
std::vector<string> list_dir(const string &dir) {
  std::vector<string> r;
  for (auto it = names.lower_bound(dir + "/"); it != names.end() && under(it->first, dir); ++it)
    if (it->first.find('/', dir.size() + 1) == string::npos) r.push_back(it->first.substr(dir.size() + 1));
  return r;
}
void remove_tree(const string &root) {
  for (auto it = names.begin(); it != names.end();)
    if (it->first == root || under(it->first, root)) it = names.erase(it); else ++it;
}
void copy_tree(const string &from, const string &to) {
  std::map<uint64_t, IP> seen;
  std::vector<std::pair<string, IP>> add;
  for (auto &kv : names) {
    if (kv.first != from && !under(kv.first, from)) continue;
    IP &n = seen[kv.second->ino];
    if (!n) { n = new_inode(kv.second->isdir); n->data = kv.second->data; }
    add.push_back({to + kv.first.substr(from.size()), n});
  }
  for (auto &a : add) names[a.first] = a.second;
}
uint64_t inode_of(const string &p) { IP i = lookup(p); return i ? i->ino : 0; }
size_t total_bytes(const string &root) { size_t t = 0; for (auto &kv : names) if (under(kv.first, root)) t += kv.second->data.size(); return t; }
uint64_t tree_hash(const string &root, bool skip_lock) {
  uint64_t h = 7;
  for (auto &kv : names) {
    if (!under(kv.first, root)) continue;
    if (skip_lock && (baseof(kv.first) == "LOCK" || baseof(kv.first) == "LOG" || baseof(kv.first) == "LOG.old")) continue; // lock and info-log files are not database content
    h = hash_str(kv.first.substr(root.size()), h);
    h = hash_str(kv.second->data, h * 31 + kv.second->isdir);
  }
  return h;
}
int open_fd_count() { return (int)fds.size(); }
std::vector<string> open_paths() { std::vector<string> r; for (auto &f : fds) r.push_back(f.second.path); return r; }

bool foreign_trylock(const string &p) { IP i = lookup(p); if (!i) return true; return i->lock_holder != 1; }
bool foreign_lock(const string &p, bool on) {
  IP i = lookup(p);
  if (!i) return false;
  if (on) { if (i->lock_holder != 0) return false; i->lock_holder = 2; return true; }
  if (i->lock_holder == 2) i->lock_holder = 0;
  return true;
}
bool locked_by_self(const string &p) { IP i = lookup(p); return i && i->lock_holder == 1; }

size_t min_dircut(const Journal &j, size_t k) {
  size_t f = 0;
  for (size_t i = 0; i < k; i++) if (j.e[i].t == J_FSYNC || j.e[i].t == J_FSYNCDIR) f = i + 1;
  return f;
}

std::vector<ImageFile> mount_image(const Journal &j, const ImageSpec &s, const string &to) {
  std::map<uint64_t, size_t> written = j.base_len, synced = j.base_len;
  uint64_t last_written_ino = 0;
  for (size_t i = 0; i < s.k && i < j.e.size(); i++) {
    const JEntry &e = j.e[i];
    if (e.t == J_WRITE) { size_t end = e.off + e.len; if (end > written[e.ino]) written[e.ino] = end; last_written_ino = e.ino; }
    else if (e.t == J_FSYNC) synced[e.ino] = written[e.ino];
  }
  std::map<string, uint64_t> ns = j.base;
  std::map<string, bool> dirs = j.base_dirs;
  for (size_t i = 0; i < s.dircut && i < j.e.size(); i++) {
    const JEntry &e = j.e[i];
    switch (e.t) {
      case J_CREATE: ns[e.a] = e.ino; break;
      case J_UNLINK: ns.erase(e.a); break;
      case J_RENAME: { auto it = ns.find(e.a); if (it != ns.end()) { uint64_t v = it->second; ns.erase(it); ns[e.b] = v; } break; }
      case J_LINK: { auto it = ns.find(e.a); if (it != ns.end()) ns[e.b] = it->second; else ns[e.b] = e.ino; break; }
      case J_MKDIR: dirs[e.a] = true; break;
      case J_RMDIR: dirs.erase(e.a); break;
      default: break;
    }
  }
  Rng r(s.seed ^ 0x1A6E);
  std::vector<ImageFile> out;
  remove_tree(to);
  mkdir_p(to);
  for (auto &d : dirs) if (under(d.first, j.root)) mkdir_p(to + d.first.substr(j.root.size()));
  std::map<uint64_t, IP> made;
  for (auto &kv : ns) {
    if (!under(kv.first, j.root)) continue;
    uint64_t ino = kv.second;
    IP &n = made[ino];
    if (!n) {
      size_t w = written.count(ino) ? written[ino] : 0, sy = synced.count(ino) ? synced[ino] : 0, len = w;
      if (sy > w) sy = w;
      switch (s.lenpolicy) {
        case L_SYNCED: len = sy; break;
        case L_WRITTEN: len = w; break;
        case L_RANDOM: len = sy + (w > sy ? (size_t)r.below(w - sy + 1) : 0); break;
        case L_TORN_LAST: len = (ino == last_written_ino && w > sy) ? sy + (size_t)r.below(w - sy) : w; break;
        case L_TORN_ALIGNED:
          if (ino == last_written_ino && w > sy) { size_t c = sy + (size_t)r.below(w - sy); size_t a = r.chance(0.5) ? 512 : 4096; c -= c % a; len = c < sy ? sy : c; } else len = w;
          break;
      }
      n = new_inode(false);
      auto dit = j.data.find(ino);
      if (dit != j.data.end()) n->data.assign(dit->second, 0, std::min(len, dit->second.size()));
      ImageFile f; f.name = kv.first.substr(j.root.size() + 1); f.ino = ino; f.len = n->data.size(); f.synced = sy; f.written = w;
      out.push_back(f);
    }
    names[to + kv.first.substr(j.root.size())] = n;
  }
  return out;
}

} // namespace simfs

using namespace simfs;

#define YIELD() sim::yield_point(sim::Y_FILE, nullptr)

extern "C" {

int __wrap_open(const char *p, int fl, ...) {
  sim::HarnessScope hs_;
  mode_t mode = 0;
  if (fl & O_CREAT) { va_list ap; va_start(ap, fl); mode = (mode_t)va_arg(ap, int); va_end(ap); }
  if (!simpath(p)) return __real_open(p, fl, mode);
  YIELD();
  string path(p);
  int call = (fl & O_CREAT) ? C_CREAT : C_OPEN;
  if (eintr_noise()) { errno = EINTR; return -1; }
  int err = check_fault(call, path);
  if (err) { errno = err; note_fail(call, path, err); return -1; }
  IP ino = lookup(path);
  if (!ino) {
    if (!(fl & O_CREAT)) { errno = ENOENT; note_fail(call, path, ENOENT); return -1; }
    IP d = lookup(dirof(path));
    if (!d || !d->isdir) { errno = ENOENT; note_fail(call, path, ENOENT); return -1; }
    ino = new_inode(false);
    names[path] = ino;
    J(J_CREATE, path, "", ino->ino);
  } else {
    if ((fl & O_CREAT) && (fl & O_EXCL)) { errno = EEXIST; note_fail(call, path, EEXIST); return -1; }
    if ((fl & O_TRUNC) && !ino->isdir) { // truncation = new incarnation of the name
      ino = new_inode(false);
      names[path] = ino;
      J(J_CREATE, path, "", ino->ino);
    }
  }
  OpenFile f; f.ino = ino; f.flags = fl; f.path = path;
  int fd = nextfd++;
  fds[fd] = f;
  return fd;
}

int __wrap_close(int fd) {
  sim::HarnessScope hs_;
  auto it = fds.find(fd);
  if (it == fds.end()) return __real_close(fd);
  YIELD();
  string path = it->second.path;
  int err = check_fault(C_CLOSE, path);
  // POSIX: the descriptor is gone even if close reports an error; closing any
  // descriptor of a file drops this process's record locks on it.
  if (it->second.ino->lock_holder == 1) it->second.ino->lock_holder = 0;
  J(J_CLOSE, path, "", it->second.ino->ino);
  fds.erase(it);
  if (err) { errno = err; note_fail(C_CLOSE, path, err); return -1; }
  return 0;
}

ssize_t __wrap_write(int fd, const void *b, size_t n) {
  sim::HarnessScope hs_;
  auto it = fds.find(fd);
  if (it == fds.end()) return __real_write(fd, b, n);
  YIELD();
  OpenFile &f = it->second;
  if (f.pending_err) { int e = f.pending_err; f.pending_err = 0; g_cnt.calls[C_WRITE][classify(f.path)]++; errno = e; note_fail(C_WRITE, f.path, e); return -1; }
  if (eintr_noise()) { errno = EINTR; return -1; }
  int partial = 0;
  int err = check_fault(C_WRITE, f.path, &partial);
  if (err) {
    if (partial > 0 && n > 1) {
      size_t m = n * (size_t)partial / 1000; if (m < 1) m = 1; if (m >= n) m = n - 1;
      do_write(f, b, m);
      f.pending_err = err; // the rest of the request fails on the next call
      return (ssize_t)m;
    }
    errno = err; note_fail(C_WRITE, f.path, err); return -1;
  }
  if (n > 1 && g_noise.short_write > 0 && g_noise_rng.chance(g_noise.short_write)) {
    size_t m = 1 + (size_t)g_noise_rng.below(n - 1);
    g_cnt.short_writes++;
    return do_write(f, b, m);
  }
  return do_write(f, b, n);
}

static ssize_t sim_read_at(OpenFile &f, void *b, size_t n, size_t off, bool advance) {
  if (eintr_noise()) { errno = EINTR; return -1; }
  int err = check_fault(C_READ, f.path);
  if (err) { errno = err; note_fail(C_READ, f.path, err); return -1; }
  size_t sz = f.ino->data.size();
  if (off >= sz) return 0;
  size_t m = std::min(n, sz - off);
  if (m > 1 && g_noise.short_read > 0 && g_noise_rng.chance(g_noise.short_read)) { m = 1 + (size_t)g_noise_rng.below(m - 1); g_cnt.short_reads++; }
  memcpy(b, f.ino->data.data() + off, m);
  if (advance) f.off = off + m;
  g_cnt.bytes_read += m;
  return (ssize_t)m;
}

ssize_t __wrap_read(int fd, void *b, size_t n) {
  sim::HarnessScope hs_;
  auto it = fds.find(fd);
  if (it == fds.end()) return __real_read(fd, b, n);
  YIELD();
  return sim_read_at(it->second, b, n, it->second.off, true);
}

ssize_t __wrap_pread(int fd, void *b, size_t n, off_t off) {
  sim::HarnessScope hs_;
  auto it = fds.find(fd);
  if (it == fds.end()) return __real_pread(fd, b, n, off);
  YIELD();
  return sim_read_at(it->second, b, n, (size_t)off, false);
}

off_t __wrap_lseek(int fd, off_t o, int wh) {
  sim::HarnessScope hs_;
  auto it = fds.find(fd);
  if (it == fds.end()) return __real_lseek(fd, o, wh);
  YIELD();
  OpenFile &f = it->second;
  int err = check_fault(C_LSEEK, f.path);
  if (err) { errno = err; return -1; }
  size_t base = wh == SEEK_SET ? 0 : wh == SEEK_CUR ? f.off : f.ino->data.size();
  f.off = base + o;
  return (off_t)f.off;
}

static int sim_fsync(int fd) {
  auto it = fds.find(fd);
  YIELD();
  OpenFile &f = it->second;
  if (eintr_noise()) { errno = EINTR; return -1; }
  int err = check_fault(C_FSYNC, f.path);
  if (err) { errno = err; note_fail(C_FSYNC, f.path, err); return -1; }
  J(f.ino->isdir ? J_FSYNCDIR : J_FSYNC, f.path, "", f.ino->ino);
  return 0;
}
int __wrap_fsync(int fd) {
  sim::HarnessScope hs_; if (!fds.count(fd)) return __real_fsync(fd); return sim_fsync(fd); }
int __wrap_fdatasync(int fd) {
  sim::HarnessScope hs_; if (!fds.count(fd)) return __real_fdatasync(fd); return sim_fsync(fd); }

int __wrap_rename(const char *a, const char *b) {
  sim::HarnessScope hs_;
  if (!simpath(a)) return __real_rename(a, b);
  YIELD();
  int err = check_fault(C_RENAME, b);
  if (err) { errno = err; note_fail(C_RENAME, b, err); return -1; }
  auto it = names.find(a);
  if (it == names.end()) { errno = ENOENT; note_fail(C_RENAME, a, ENOENT); return -1; }
  IP i = it->second;
  names.erase(it);
  names[b] = i;
  J(J_RENAME, a, b, i->ino);
  return 0;
}

int __wrap_unlink(const char *a) {
  sim::HarnessScope hs_;
  if (!simpath(a)) return __real_unlink(a);
  YIELD();
  int err = check_fault(C_UNLINK, a);
  if (err) { errno = err; note_fail(C_UNLINK, a, err); return -1; }
  auto it = names.find(a);
  if (it == names.end()) { errno = ENOENT; note_fail(C_UNLINK, a, ENOENT); return -1; }
  if (it->second->isdir) { errno = EISDIR; return -1; }
  J(J_UNLINK, a, "", it->second->ino);
  names.erase(it);
  return 0;
}

int __wrap_link(const char *a, const char *b) {
  sim::HarnessScope hs_;
  if (!simpath(a)) return __real_link(a, b);
  YIELD();
  int err = check_fault(C_LINK, b);
  if (err) { errno = err; note_fail(C_LINK, b, err); return -1; }
  auto it = names.find(a);
  if (it == names.end()) { errno = ENOENT; return -1; }
  if (names.count(b)) { errno = EEXIST; return -1; }
  names[b] = it->second;
  if (rec && recorded(b) && !rec->data.count(it->second->ino)) { // source outside the recorded tree
    rec->data[it->second->ino] = it->second->data;
  }
  J(J_LINK, a, b, it->second->ino);
  return 0;
}

int __wrap_mkdir(const char *p, mode_t m) {
  sim::HarnessScope hs_;
  if (!simpath(p)) return __real_mkdir(p, m);
  YIELD();
  int err = check_fault(C_MKDIR, p);
  if (err) { errno = err; note_fail(C_MKDIR, p, err); return -1; }
  if (names.count(p)) { errno = EEXIST; return -1; }
  IP d = lookup(dirof(p));
  if (!d || !d->isdir) { errno = ENOENT; return -1; }
  IP n = new_inode(true);
  names[p] = n;
  J(J_MKDIR, p, "", n->ino);
  return 0;
}

int __wrap_rmdir(const char *p) {
  sim::HarnessScope hs_;
  if (!simpath(p)) return __real_rmdir(p);
  YIELD();
  int err = check_fault(C_RMDIR, p);
  if (err) { errno = err; return -1; }
  auto it = names.find(p);
  if (it == names.end()) { errno = ENOENT; return -1; }
  if (!it->second->isdir) { errno = ENOTDIR; return -1; }
  string pre = string(p) + "/";
  auto nx = names.lower_bound(pre);
  if (nx != names.end() && nx->first.compare(0, pre.size(), pre) == 0) { errno = ENOTEMPTY; return -1; }
  J(J_RMDIR, p, "", it->second->ino);
  names.erase(it);
  return 0;
}

static void fill_stat(struct stat *st, const Inode &i) {
  memset(st, 0, sizeof *st);
  st->st_size = (off_t)i.data.size();
  st->st_ino = i.ino;
  st->st_dev = 7;
  st->st_nlink = 1;
  st->st_mode = i.isdir ? (S_IFDIR | 0755) : (S_IFREG | 0644);
}

int __wrap_stat(const char *p, struct stat *st) {
  sim::HarnessScope hs_;
  if (!simpath(p)) return __real_stat(p, st);
  YIELD();
  int err = check_fault(C_STAT, p);
  if (err) { errno = err; return -1; }
  IP i = lookup(p);
  if (!i) { errno = ENOENT; return -1; }
  fill_stat(st, *i);
  return 0;
}

int __wrap_fstat(int fd, struct stat *st) {
  sim::HarnessScope hs_;
  auto it = fds.find(fd);
  if (it == fds.end()) return __real_fstat(fd, st);
  YIELD();
  int err = check_fault(C_STAT, it->second.path);
  if (err) { errno = err; return -1; }
  fill_stat(st, *it->second.ino);
  return 0;
}

int __wrap_access(const char *p, int mode) {
  sim::HarnessScope hs_;
  if (!simpath(p)) return __real_access(p, mode);
  YIELD();
  int err = check_fault(C_ACCESS, p);
  if (err) { errno = err; return -1; }
  if (names.count(p)) return 0;
  errno = ENOENT;
  return -1;
}

DIR *__wrap_opendir(const char *p) {
  sim::HarnessScope hs_;
  if (!simpath(p)) return __real_opendir(p);
  YIELD();
  int err = check_fault(C_OPENDIR, p);
  if (err) { errno = err; note_fail(C_OPENDIR, p, err); return nullptr; }
  IP i = lookup(p);
  if (!i) { errno = ENOENT; return nullptr; }
  if (!i->isdir) { errno = ENOTDIR; return nullptr; }
  SimDir *d = new SimDir;
  d->ents = list_dir(p);
  d->ents.push_back(".");
  d->ents.push_back("..");
  for (size_t k = d->ents.size(); k > 1; k--) std::swap(d->ents[k - 1], d->ents[g_rng.below(k)]);
  simdirs.insert(d);
  return (DIR *)d;
}

struct dirent *__wrap_readdir(DIR *dd) {
  sim::HarnessScope hs_;
  if (!simdirs.count(dd)) return __real_readdir(dd);
  SimDir *d = (SimDir *)dd;
  if (d->i >= d->ents.size()) return nullptr;
  memset(&d->de, 0, sizeof d->de);
  strncpy(d->de.d_name, d->ents[d->i++].c_str(), sizeof(d->de.d_name) - 1);
  return &d->de;
}

int __wrap_closedir(DIR *dd) {
  sim::HarnessScope hs_;
  if (!simdirs.count(dd)) return __real_closedir(dd);
  simdirs.erase(dd);
  delete (SimDir *)dd;
  return 0;
}

void *__wrap_mmap(void *addr, size_t n, int prot, int flags, int fd, off_t off) {
  sim::HarnessScope hs_;
  auto it = fds.find(fd);
  if (fd < 0 || it == fds.end()) return __real_mmap(addr, n, prot, flags, fd, off);
  YIELD();
  int err = check_fault(C_MMAP, it->second.path);
  if (err) { errno = err; note_fail(C_MMAP, it->second.path, err); return MAP_FAILED; }
  if (n == 0) { errno = EINVAL; return MAP_FAILED; }
  void *m = malloc(n);
  const string &d = it->second.ino->data;
  size_t c = (size_t)off < d.size() ? std::min(n, d.size() - (size_t)off) : 0;
  if (c) memcpy(m, d.data() + off, c);
  if (c < n) memset((char *)m + c, 0, n - c);
  maps[m] = n;
  return m;
}

int __wrap_munmap(void *p, size_t n) {
  sim::HarnessScope hs_;
  auto it = maps.find(p);
  if (it == maps.end()) return __real_munmap(p, n);
  maps.erase(it);
  free(p);
  return 0;
}

int __wrap_fcntl(int fd, int cmd, ...) {
  sim::HarnessScope hs_;
  va_list ap; va_start(ap, cmd); void *arg = va_arg(ap, void *); va_end(ap);
  auto it = fds.find(fd);
  if (it == fds.end()) return __real_fcntl(fd, cmd, arg);
  if (cmd == F_SETLK || cmd == F_SETLKW) {
    YIELD();
    struct flock *fl = (struct flock *)arg;
    Inode &i = *it->second.ino;
    if (fl->l_type == F_UNLCK) { if (i.lock_holder == 1) i.lock_holder = 0; return 0; }
    int err = check_fault(C_FCNTL_LOCK, it->second.path);
    if (err) { errno = err; return -1; }
    if (i.lock_holder == 2) { errno = EAGAIN; return -1; }
    i.lock_holder = 1;
    return 0;
  }
  return 0; // F_GETFD / F_SETFD
}

int __wrap_getrlimit(int res, struct rlimit *r) {
  sim::HarnessScope hs_;
  if (res != RLIMIT_NOFILE || sim::self_tid() < 0) return __real_getrlimit(res, r);
  r->rlim_cur = (rlim_t)g_rlimit; r->rlim_max = (rlim_t)g_rlimit;
  return 0;
}

int __wrap_gettimeofday(struct timeval *tv, void *tz) {
  sim::HarnessScope hs_;
  if (sim::self_tid() < 0) return __real_gettimeofday(tv, tz);
  uint64_t c = sim::clock_usec();
  tv->tv_sec = (time_t)(c / 1000000); tv->tv_usec = (suseconds_t)(c % 1000000);
  return 0;
}

int __wrap_select(int n, fd_set *r, fd_set *w, fd_set *e, struct timeval *tv) {
  sim::HarnessScope hs_;
  if (n != 0 || sim::self_tid() < 0) return __real_select(n, r, w, e, tv);
  if (tv) sim::clock_jump((int64_t)tv->tv_sec * 1000000 + tv->tv_usec);
  sim::yield_point(sim::Y_SLEEP, nullptr);
  return 0;
}

static ssize_t cookie_write(void *c, const char *b, size_t n) {
  int fd = (int)(intptr_t)c;
  auto it = fds.find(fd);
  if (it == fds.end()) return 0;
  do_write(it->second, b, n); // info log: no yield point, no faults
  return (ssize_t)n;
}
static int cookie_close(void *c) {
  int fd = (int)(intptr_t)c;
  auto it = fds.find(fd);
  if (it != fds.end()) { if (it->second.ino->lock_holder == 1) it->second.ino->lock_holder = 0; fds.erase(it); }
  return 0;
}

FILE *__wrap_fdopen(int fd, const char *mode) {
  sim::HarnessScope hs_;
  if (!fds.count(fd)) return __real_fdopen(fd, mode);
  cookie_io_functions_t io; memset(&io, 0, sizeof io);
  io.write = cookie_write; io.close = cookie_close;
  return fopencookie((void *)(intptr_t)fd, "w", io);
}

} // extern "C"
