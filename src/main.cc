// lsim: worker / replay / shrink driver.
#include "lsim.h"
#include "harness_scope.h"
#include "monitors.h"
#include <algorithm>
#include <errno.h>
#include <fcntl.h>
#include <signal.h>
#include <sstream>
#include <stdio.h>
#include <stdlib.h>
#include <string.h>
#include <sys/personality.h>
#include <sys/stat.h>
#include <sys/wait.h>
#include <time.h>
#include <unistd.h>

Plan gen_crash(uint64_t, const string &); void exec_crash(const Plan &, RunOut *);
Plan gen_conc(uint64_t, const string &); void exec_conc(const Plan &, RunOut *);
Plan gen_ioerr(uint64_t, const string &); void exec_ioerr(const Plan &, RunOut *);
Plan gen_corrupt(uint64_t, const string &); void exec_corrupt(const Plan &, RunOut *);
Plan gen_logfmt(uint64_t, const string &); void exec_logfmt(const Plan &, RunOut *);
Plan gen_repair(uint64_t, const string &); void exec_repair(const Plan &, RunOut *);
Plan gen_life(uint64_t, const string &); void exec_life(const Plan &, RunOut *);
Plan gen_shard(uint64_t, const string &); void exec_shard(const Plan &, RunOut *);

static const Mode g_modes[] = {
  {"model", gen_model, exec_model},
  {"crash", gen_crash, exec_crash},
  {"conc", gen_conc, exec_conc},
  {"ioerr", gen_ioerr, exec_ioerr},
  {"corrupt", gen_corrupt, exec_corrupt},
  {"logfmt", gen_logfmt, exec_logfmt},
  {"repair", gen_repair, exec_repair},
  {"life", gen_life, exec_life},
  {"shard", gen_shard, exec_shard},
};
const Mode *find_mode(const string &n) { for (auto &m : g_modes) if (n == m.name) return &m; return nullptr; }

// ------------------------------------------------------------------ run bracket
static long g_worker_rlimit = 1024;
static string g_cur_plan_text;       // for crash handlers
static string g_cur_prop;
static string g_replay_dir = "/verif/replays";
static string g_tag = "w0";
static bool g_in_replay = false;
static string g_seq_desc;            // how this worker generates its runs (for replaying a whole sequence)
static uint64_t g_seq_count = 0;     // runs started so far

static void emergency(const char *prop, const char *cls, const char *detail);

void begin_run(const Plan &p, RunOut *out) {
  g_out = out;
  simfs::reset();
  simfs::set_seed(p.seed);
  simfs::set_rlimit_nofile(p.cfg.rlimit);
  monitors_reset();
  sim::reset(p.sc);
}

void end_run(RunOut *out) {
  sim::drain();
  if (sim::live_threads() != 0) {
    string rep = std::to_string(sim::live_threads()) + " thread(s) still unfinished after every handle was closed:\n" + sim::dump_threads();
    emergency("C09", "thread_leak", rep.c_str());
  }
  const sim::SchedStats &s = sim::stats();
  out->event_hash = mix64(s.hash, s.steps);
  out->counts["sched_steps"] += s.steps;
  out->counts["sched_switches"] += s.switches;
  for (int k = 1; k < sim::Y_NKINDS; k++) out->counts["yield_kind_" + std::to_string(k)] += s.by_kind[k];
  out->counts["sched_atomic_switches"] += s.atomic_switches;
  out->counts["sim_usec"] += sim::clock_usec() - 1700000000ULL * 1000000ULL;
  out->probes["sched:spurious_wakeups"] += s.spurious;
  out->probes["sched:cond_waits"] += s.cond_waits;
  out->probes["sched:mutex_blocks"] += s.mutex_blocks;
  out->probes["sched:threads_created"] += s.threads_created;
  simfs::Counters &c = simfs::counters();
  out->probes["fs:short_writes"] += c.short_writes;
  out->probes["fs:short_reads"] += c.short_reads;
  out->probes["fs:eintr"] += c.eintrs;
  for (auto &f : simfs::fired()) out->probes[string("fault:") + simfs::call_name[f.call] + ":" + simfs::fclass_name[f.fclass] + ":" + std::to_string(f.err)]++;
  out->event_hash = mix64(out->event_hash, c.bytes_written * 31 + c.bytes_read);
  if (sim::live_threads() == 0) { simfs::reset(); }
  g_out = nullptr;
}

// ------------------------------------------------------------------ replay files
static string sanitize(const string &s) { string r; for (char c : s) r.push_back((isalnum((unsigned char)c) || c == '_' || c == '-') ? c : '_'); return r; }

static string write_replay(const Plan &p, const string &prop, const string &cls) {
  mkdir(g_replay_dir.c_str(), 0755);
  char b[64]; snprintf(b, sizeof b, "%llu", (unsigned long long)p.seed);
  string path = g_replay_dir + "/" + prop + "-" + sanitize(cls) + "-" + b + ".plan";
  Plan q = p; q.expect = prop + "." + cls;
  string t = q.str();
  FILE *f = fopen(path.c_str(), "w");
  if (f) { fwrite(t.data(), 1, t.size(), f); fclose(f); }
  return path;
}

static void json_escape(string &o, const string &s) {
  for (unsigned char c : s) {
    if (c == '"' || c == '\\') { o.push_back('\\'); o.push_back((char)c); }
    else if (c == '\n') o += "\\n";
    else if (c < 0x20 || c >= 0x7f) { char b[8]; snprintf(b, sizeof b, "\\u%04x", c); o += b; }
    else o.push_back((char)c);
  }
}

// Called from fatal paths (deadlock, step budget, signals, sanitizer death): the
// process state is unusable afterwards.
static void emergency(const char *prop, const char *cls, const char *detail) {
  static volatile int once = 0;
  if (once++) _exit(4);
  string path;
  if (!g_in_replay) {
    mkdir(g_replay_dir.c_str(), 0755);
    path = g_replay_dir + "/" + prop + "-" + sanitize(cls) + "-" + g_tag + "-" + std::to_string((long)getpid()) + ".plan";
    string t = g_cur_plan_text + "expect " + prop + "." + cls + "\n";
    // a memory error may depend on what earlier runs of this process left behind: record the sequence as well
    if (!g_seq_desc.empty()) t += "param worker_seq " + g_seq_desc + " count=" + std::to_string((unsigned long long)g_seq_count) + "\n";
    int fd = open(path.c_str(), O_WRONLY | O_CREAT | O_TRUNC, 0644);
    if (fd >= 0) { ssize_t w = write(fd, t.data(), t.size()); (void)w; close(fd); }
  }
  string d; json_escape(d, detail);
  char line[4096];
  int n = snprintf(line, sizeof line, "\n%s {\"property\":\"%s\",\"class\":\"%s\",\"replay\":\"%s\",\"fatal\":1,\"detail\":\"%.3000s\"}\n", g_in_replay ? "REPRODUCED" : "CANDIDATE", prop, cls, path.c_str(), d.c_str());
  ssize_t w = write(1, line, (size_t)n); (void)w;
  _exit(g_in_replay ? 1 : 3);
}

static void sim_fatal(const char *cls, const std::string &report) {
  if (!strcmp(cls, "misuse")) { fprintf(stderr, "simulator misuse: %s\n", report.c_str()); _exit(2); }
  emergency("C09", cls, report.c_str());
}

static const char *crash_prop() { return g_cur_prop.empty() ? "C12" : g_cur_prop.c_str(); }
static void on_signal(int sig) {
  char b[64]; snprintf(b, sizeof b, "process received signal %d (%s)", sig, strsignal(sig));
  emergency(crash_prop(), sig == SIGABRT ? "abort" : "crash_signal", b);
}
// lcdb's own assertions (FEAT=assert builds): report the failed expression instead of a bare SIGABRT
extern "C" void __wrap___assert_fail(const char *expr, const char *file, unsigned line, const char *func) {
  char b[600]; snprintf(b, sizeof b, "assertion failed inside lcdb: %s:%u: %s: `%s'", file ? file : "?", line, func ? func : "?", expr ? expr : "?");
  fprintf(stderr, "%s\n", b);
  emergency(crash_prop(), "assertion", b);
  _exit(3);
}
extern "C" void __sanitizer_set_death_callback(void (*)(void)) __attribute__((weak));
static void on_sanitizer_death() { emergency(crash_prop(), "sanitizer_report", "sanitizer reported an error (see stderr of the worker)"); }

// ------------------------------------------------------------------ executing a plan in a child (used by the shrinker)
struct ChildResult { bool violated = false; string prop, cls, detail; uint64_t hash = 0; };

static ChildResult run_here(const Plan &p) {
  const Mode *m = find_mode(p.mode);
  RunOut out;
  g_cur_plan_text = p.str();
  m->exec(p, &out);
  ChildResult r;
  r.hash = out.event_hash;
  if (!out.viol.empty()) { r.violated = true; r.prop = out.viol[0].prop; r.cls = out.viol[0].cls; r.detail = out.viol[0].detail; }
  return r;
}

static ChildResult run_forked(const Plan &p) {
  int fds[2];
  ChildResult r;
  if (pipe(fds) != 0) return r;
  fflush(stdout); fflush(stderr);
  pid_t pid = fork();
  if (pid == 0) {
    close(fds[0]);
    dup2(fds[1], 1); // CANDIDATE/REPRODUCED lines from emergency() go to the pipe
    g_in_replay = true;
    g_known.clear();
    ChildResult c = run_here(p);
    string line = c.violated ? ("RESULT " + c.prop + " " + c.cls + " " + c.detail) : "RESULT ok";
    for (char &ch : line) if (ch == '\n') ch = ' ';
    line += "\n";
    ssize_t w = write(1, line.data(), line.size()); (void)w;
    _exit(0);
  }
  close(fds[1]);
  string buf; char b[4096]; ssize_t n;
  while ((n = read(fds[0], b, sizeof b)) > 0) buf.append(b, (size_t)n);
  close(fds[0]);
  int st; waitpid(pid, &st, 0);
  size_t p1 = buf.find("RESULT ");
  if (p1 != string::npos) {
    string l = buf.substr(p1 + 7); l = l.substr(0, l.find('\n'));
    if (l != "ok") { r.violated = true; size_t a = l.find(' '), b2 = l.find(' ', a + 1); r.prop = l.substr(0, a); r.cls = l.substr(a + 1, b2 - a - 1); r.detail = b2 == string::npos ? "" : l.substr(b2 + 1); }
    return r;
  }
  size_t p2 = buf.find("REPRODUCED {");
  if (p2 != string::npos) {
    r.violated = true;
    size_t a = buf.find("\"property\":\"", p2), c = buf.find("\"class\":\"", p2);
    if (a != string::npos) { a += 12; r.prop = buf.substr(a, buf.find('"', a) - a); }
    if (c != string::npos) { c += 9; r.cls = buf.substr(c, buf.find('"', c) - c); }
    r.detail = "fatal";
    return r;
  }
  if (WIFSIGNALED(st) || (WIFEXITED(st) && WEXITSTATUS(st) != 0)) { r.violated = true; r.prop = "?"; r.cls = "child_died"; }
  return r;
}

// ddmin over the operation list; a candidate is kept only if it fails with the same property and class
static double now_s();
static double g_shrink_wall = 90; // seconds per candidate; minimisation is best-effort, the unshrunk plan is a valid replay too
static Plan shrink(const Plan &orig, const string &prop, const string &cls, int budget0, int *runs_used) {
  Plan best = orig;
  int used = 0;
  const double t0 = now_s();
  struct Budget { int *used; int cap; double t0; bool operator>(int u) const { return u < cap && now_s() - t0 < g_shrink_wall; } } budget{&used, budget0, t0};
  // a candidate that no longer fails under the original scheduler seed is retried under two more seeds when the plan
  // is multi-threaded: removing operations shifts every later scheduling decision, and the interleaving that matters
  // is often found again nearby
  bool multi = orig.geti("threads", 1) > 1;
  auto fails_once = [&](const Plan &q) { used++; ChildResult r = run_forked(q); return r.violated && r.prop == prop && r.cls == cls; };
  auto fails = [&](Plan &q) {
    if (fails_once(q)) return true;
    if (!multi) return false;
    uint64_t s0 = q.sc.seed;
    for (int k = 1; k <= 2 && budget > used; k++) { q.sc.seed = s0 + 7919ULL * k; if (fails_once(q)) return true; }
    q.sc.seed = s0;
    return false;
  };
  size_t chunk = std::max<size_t>(1, best.ops.size() / 2);
  while (budget > used) {
    bool progress = false;
    for (size_t start = 0; start < best.ops.size() && budget > used;) {
      Plan q = best;
      size_t end = std::min(start + chunk, q.ops.size());
      q.ops.erase(q.ops.begin() + (long)start, q.ops.begin() + (long)end);
      if (fails(q)) { best = q; progress = true; } else start += chunk;
    }
    if (chunk == 1) { if (!progress) break; } else chunk = std::max<size_t>(1, chunk / 2);
  }
  // simplify arguments: shorter values, no sync, fewer batch updates
  for (size_t i = 0; i < best.ops.size() && budget > used; i++) {
    Op &o = best.ops[i];
    if (o.kind == O_PUT && o.len > 16) { Plan q = best; q.ops[i].len = 16; if (fails(q)) best = q; }
    if (best.ops[i].kind == O_WRITE && best.ops[i].ups.size() > 1 && budget > used) {
      Plan q = best; q.ops[i].ups.resize(1); if (fails(q)) best = q;
    }
  }
  // simpler schedule
  if (budget > used && best.sc.policy != sim::P_BG_STARVE) { Plan q = best; q.sc.policy = sim::P_BG_STARVE; q.sc.spurious = false; q.sc.nonfifo_signal = false; q.sc.create_order = 0; if (fails(q)) best = q; }
  *runs_used = used;
  return best;
}

// ------------------------------------------------------------------ worker
struct Agg {
  uint64_t runs = 0, nontrivial = 0, violations = 0;
  std::map<string, uint64_t> probes, counts;
  std::vector<string> samples;
  std::set<string> known_reported;
  std::set<uint64_t> shapes;
  FILE *hashf = nullptr;
};

static void print_summary(const Agg &a, double wall, bool final) {
  string o = "SUMMARY {";
  char b[256];
  snprintf(b, sizeof b, "\"tag\":\"%s\",\"final\":%d,\"runs\":%llu,\"nontrivial\":%llu,\"candidates\":%llu,\"wall\":%.3f,\"probes\":{", g_tag.c_str(), (int)final,
           (unsigned long long)a.runs, (unsigned long long)a.nontrivial, (unsigned long long)a.violations, wall);
  o += b;
  bool first = true;
  for (auto &p : a.probes) { if (!first) o += ","; first = false; o += "\""; json_escape(o, p.first); snprintf(b, sizeof b, "\":%llu", (unsigned long long)p.second); o += b; }
  o += "},\"counts\":{";
  first = true;
  for (auto &p : a.counts) { if (!first) o += ","; first = false; o += "\""; json_escape(o, p.first); snprintf(b, sizeof b, "\":%llu", (unsigned long long)p.second); o += b; }
  o += "},\"samples\":[";
  first = true;
  for (auto &s : a.samples) { if (!first) o += ","; first = false; o += "\""; json_escape(o, s); o += "\""; }
  o += "]}\n";
  fputs(o.c_str(), stdout);
  fflush(stdout);
}

static double now_s() { struct timespec ts; clock_gettime(CLOCK_MONOTONIC, &ts); return ts.tv_sec + ts.tv_nsec * 1e-9; }

static string sample_of(const Plan &p) {
  string s = "mode=" + p.mode + " seed=" + std::to_string(p.seed) + " cfg{" + p.cfg.str() + "} sched{" + sched_str(p.sc) + "}";
  for (auto &kv : p.params) s += " " + kv.first + "=" + kv.second;
  s += " ops[" + std::to_string(p.ops.size()) + "]:";
  for (size_t i = 0; i < p.ops.size() && i < 12; i++) s += " | " + p.ops[i].str().substr(3);
  if (p.ops.size() > 12) s += " | ...";
  return s;
}

static int cmd_run(int argc, char **argv) {
  string mode = "model", prop = "C01", out_prefix;
  uint64_t seed = 1, start = 0, stride = 1, max_runs = ~0ULL;
  double budget = 10;
  int max_cand = 4, shrink_budget = 250;
  for (int i = 0; i < argc; i++) {
    string a = argv[i];
    auto val = [&]() { return string(i + 1 < argc ? argv[++i] : ""); };
    if (a == "--mode") mode = val(); else if (a == "--prop") prop = val(); else if (a == "--seed") seed = strtoull(val().c_str(), 0, 10);
    else if (a == "--start") start = strtoull(val().c_str(), 0, 10); else if (a == "--stride") stride = strtoull(val().c_str(), 0, 10);
    else if (a == "--max-runs") max_runs = strtoull(val().c_str(), 0, 10); else if (a == "--budget") budget = atof(val().c_str());
    else if (a == "--tag") g_tag = val(); else if (a == "--rlimit") g_worker_rlimit = atol(val().c_str()); else if (a == "--hashes") out_prefix = val();
    else if (a == "--replay-dir") g_replay_dir = val();
    else if (a == "--tier") g_thorough = (val() == "thorough");
    else if (a == "--light") g_light = true;
    else if (a == "--known") { string k = val(); size_t e = k.find('='); g_known.push_back({k.substr(0, e), e == string::npos ? "" : k.substr(e + 1)}); } else if (a == "--max-candidates") max_cand = atoi(val().c_str()); else if (a == "--shrink-budget") shrink_budget = atoi(val().c_str()); else if (a == "--shrink-wall") g_shrink_wall = atof(val().c_str());
    else { fprintf(stderr, "unknown option %s\n", a.c_str()); return 2; }
  }
  const Mode *m = find_mode(mode);
  if (!m) { fprintf(stderr, "unknown mode %s\n", mode.c_str()); return 2; }
  g_cur_prop = prop;
  Agg agg;
  if (!out_prefix.empty()) agg.hashf = fopen(out_prefix.c_str(), "wb");
  double t0 = now_s(), last_print = t0;
  uint64_t base = mix64(seed, hash_str(prop));
  printf("START {\"tag\":\"%s\",\"mode\":\"%s\",\"prop\":\"%s\",\"seed\":%llu,\"start\":%llu,\"stride\":%llu,\"rlimit\":%ld}\n", g_tag.c_str(), mode.c_str(), prop.c_str(),
         (unsigned long long)seed, (unsigned long long)start, (unsigned long long)stride, g_worker_rlimit);
  fflush(stdout);
  {
    char b[256];
    snprintf(b, sizeof b, "mode=%s prop=%s seed=%llu start=%llu stride=%llu rlimit=%ld light=%d thorough=%d", mode.c_str(), prop.c_str(), (unsigned long long)seed, (unsigned long long)start, (unsigned long long)stride, g_worker_rlimit, (int)g_light, (int)g_thorough);
    g_seq_desc = b;
  }
  for (uint64_t i = start; agg.runs < max_runs; i += stride) {
    double t = now_s();
    if (t - t0 > budget) break;
    g_seq_count++;
    uint64_t run_seed = mix64(base, i);
    Plan p = m->gen(run_seed, prop);
    p.cfg.rlimit = g_worker_rlimit;
    g_cur_plan_text = p.str();
    RunOut out;
    m->exec(p, &out);
    agg.runs++;
    for (auto &kv : out.probes) agg.probes[kv.first] += kv.second;
    for (auto &kv : out.counts) agg.counts[kv.first] += kv.second;
    agg.shapes.insert(out.shapes.begin(), out.shapes.end());
    agg.counts["distinct_lsm_shapes_this_worker"] = agg.shapes.size();
    if (out.nontrivial) {
      agg.nontrivial++;
      if (agg.hashf) { uint64_t h = mix64(p.hash(), out.event_hash); fwrite(&h, 8, 1, agg.hashf); }
      if (agg.samples.size() < 2 || (agg.samples.size() < 3 && agg.runs > 20)) agg.samples.push_back(sample_of(p));
    }
    for (auto &kv : out.known) {
      string pc = kv.prop + "." + kv.cls;
      if (agg.known_reported.count(pc)) continue;
      agg.known_reported.insert(pc);
      auto saved = g_known; g_known.clear();
      int used = 0;
      Plan small = shrink_budget > 0 ? shrink(p, kv.prop, kv.cls, shrink_budget, &used) : p;
      ChildResult fin = run_forked(small);
      g_known = saved;
      string path = write_replay(small, kv.prop, kv.cls);
      string d; json_escape(d, fin.violated && fin.prop == kv.prop && fin.cls == kv.cls ? fin.detail : kv.detail);
      printf("CANDIDATE {\"property\":\"%s\",\"class\":\"%s\",\"replay\":\"%s\",\"ops_before\":%zu,\"ops_after\":%zu,\"shrink_runs\":%d,\"known\":1,\"detail\":\"%s\"}\n", kv.prop.c_str(), kv.cls.c_str(), path.c_str(), p.ops.size(), small.ops.size(), used, d.c_str());
      fflush(stdout);
    }
    if (!out.viol.empty()) {
      agg.violations++;
      const Violation &v = out.viol[0];
      // gate 1: the same plan in the same process must fail the same way with the same event hash
      RunOut out2;
      m->exec(p, &out2);
      bool same = !out2.viol.empty() && out2.viol[0].prop == v.prop && out2.viol[0].cls == v.cls && out2.event_hash == out.event_hash;
      if (!same) {
        string path = write_replay(p, v.prop, v.cls + "-nondet");
        printf("NONDETERMINISM {\"property\":\"%s\",\"class\":\"%s\",\"replay\":\"%s\",\"hash1\":\"%llx\",\"hash2\":\"%llx\",\"second\":\"%s\"}\n", v.prop.c_str(), v.cls.c_str(), path.c_str(),
               (unsigned long long)out.event_hash, (unsigned long long)out2.event_hash, out2.viol.empty() ? "no violation" : (out2.viol[0].prop + "." + out2.viol[0].cls).c_str());
        fflush(stdout);
        return 2;
      }
      int used = 0;
      Plan small = shrink_budget > 0 ? shrink(p, v.prop, v.cls, shrink_budget, &used) : p;
      ChildResult fin = run_forked(small);
      string path = write_replay(small, v.prop, v.cls);
      string d; json_escape(d, fin.violated ? fin.detail : v.detail);
      printf("CANDIDATE {\"property\":\"%s\",\"class\":\"%s\",\"replay\":\"%s\",\"ops_before\":%zu,\"ops_after\":%zu,\"shrink_runs\":%d,\"detail\":\"%s\"}\n", v.prop.c_str(), v.cls.c_str(), path.c_str(), p.ops.size(), small.ops.size(), used, d.c_str());
      fflush(stdout);
      if ((int)agg.violations >= max_cand) break;
    }
    if (t - last_print > 2.0) { print_summary(agg, t - t0, false); last_print = t; if (agg.hashf) fflush(agg.hashf); }
  }
  if (agg.hashf) fclose(agg.hashf);
  print_summary(agg, now_s() - t0, true);
  return 0;
}

static int cmd_replay(const char *file) {
  FILE *f = fopen(file, "r");
  if (!f) { fprintf(stderr, "cannot open %s\n", file); return 2; }
  string text; char b[65536]; size_t n;
  while ((n = fread(b, 1, sizeof b, f)) > 0) text.append(b, n);
  fclose(f);
  Plan p; string err;
  if (!p.parse(text, &err)) { fprintf(stderr, "cannot parse %s: %s\n", file, err.c_str()); return 2; }
  const Mode *m = find_mode(p.mode);
  if (!m) { fprintf(stderr, "unknown mode %s\n", p.mode.c_str()); return 2; }
  g_in_replay = true;
  bool want_trace = getenv("LSIM_TRACE") != nullptr;
  if (want_trace) sim::trace_enable(true);
  size_t dot = p.expect.find('.');
  g_cur_prop = dot == string::npos ? "" : p.expect.substr(0, dot);
  g_cur_plan_text = text;
  RunOut out;
  m->exec(p, &out);
  if (want_trace) {
    string tf = string(file) + ".trace";
    FILE *t = fopen(tf.c_str(), "w");
    if (t) {
      static const char *kn[] = {"?", "mutex_lock", "mutex_unlock", "cond_wait", "cond_signal", "cond_broadcast", "create", "exit", "join", "file_call", "atomic", "sleep", "api"};
      fprintf(t, "# schedule and fault trace of %s\n# outcome: %s\n", file, out.viol.empty() ? "no violation" : (out.viol[0].prop + "." + out.viol[0].cls + ": " + out.viol[0].detail).c_str());
      fprintf(t, "# context switches: step kind from->to  (negative kind: the running thread blocked: -1 mutex, -2 cond, -3 join)\n");
      for (auto &sw : sim::trace()) fprintf(t, "switch %llu %s t%d->t%d\n", (unsigned long long)sw.step, sw.kind > 0 && sw.kind < 13 ? kn[sw.kind] : (sw.kind == -1 ? "blocked_mutex" : sw.kind == -2 ? "blocked_cond" : sw.kind == -3 ? "blocked_join" : "blocked"), sw.from, sw.to);
      fprintf(t, "# injected faults that fired: call class errno path step tid op\n");
      for (auto &kv : out.probes) if (kv.first.compare(0, 6, "fault:") == 0 || kv.first.compare(0, 6, "crash:") == 0 || kv.first.compare(0, 7, "damage:") == 0) fprintf(t, "fault %s x%llu\n", kv.first.c_str(), (unsigned long long)kv.second);
      fclose(t);
      printf("TRACE %s (%zu switches)\n", tf.c_str(), sim::trace().size());
    }
  }
  if (out.viol.empty() && p.params.count("worker_seq")) {
    // replay the whole sequence of runs the worker had executed in its process up to the failing one
    std::map<string, string> kv;
    { std::istringstream is(p.params.at("worker_seq")); string t; while (is >> t) { size_t e = t.find('='); if (e != string::npos) kv[t.substr(0, e)] = t.substr(e + 1); } }
    const Mode *sm = find_mode(kv["mode"]);
    if (sm) {
      g_light = kv["light"] == "1"; g_thorough = kv["thorough"] == "1";
      uint64_t seed = strtoull(kv["seed"].c_str(), 0, 10), start = strtoull(kv["start"].c_str(), 0, 10), stride = strtoull(kv["stride"].c_str(), 0, 10), count = strtoull(kv["count"].c_str(), 0, 10);
      uint64_t base = mix64(seed, hash_str(kv["prop"]));
      printf("SEQUENCE-REPLAY {\"runs\":%llu}\n", (unsigned long long)count);
      for (uint64_t n = 0; n < count; n++) {
        Plan q = sm->gen(mix64(base, start + n * stride), kv["prop"]);
        q.cfg.rlimit = atol(kv["rlimit"].c_str());
        g_cur_plan_text = q.str();
        RunOut o2;
        sm->exec(q, &o2); // a crash / sanitizer report ends the process through emergency() with a REPRODUCED line
        if (!o2.viol.empty() && n + 1 == count) { string d; json_escape(d, o2.viol[0].detail); printf("REPRODUCED {\"property\":\"%s\",\"class\":\"%s\",\"hash\":\"%llx\",\"detail\":\"%s\"}\n", o2.viol[0].prop.c_str(), o2.viol[0].cls.c_str(), (unsigned long long)o2.event_hash, d.c_str()); return 1; }
      }
    }
  }
  if (out.viol.empty()) { printf("NOT-REPRODUCED {\"expect\":\"%s\",\"hash\":\"%llx\"}\n", p.expect.c_str(), (unsigned long long)out.event_hash); return 0; }
  for (auto &v : out.viol) {
    string d; json_escape(d, v.detail);
    printf("REPRODUCED {\"property\":\"%s\",\"class\":\"%s\",\"hash\":\"%llx\",\"detail\":\"%s\"}\n", v.prop.c_str(), v.cls.c_str(), (unsigned long long)out.event_hash, d.c_str());
    break;
  }
  if (getenv("LSIM_VERBOSE")) for (auto &kv : out.probes) printf("  probe %s %llu\n", kv.first.c_str(), (unsigned long long)kv.second);
  return 1;
}

static int cmd_gen(int argc, char **argv) {
  string mode = "model", prop = "C01"; uint64_t seed = 1;
  for (int i = 0; i + 1 < argc; i += 2) { string a = argv[i]; if (a == "--mode") mode = argv[i + 1]; else if (a == "--prop") prop = argv[i + 1]; else if (a == "--seed") seed = strtoull(argv[i + 1], 0, 10); }
  const Mode *m = find_mode(mode);
  if (!m) return 2;
  fputs(m->gen(seed, prop).str().c_str(), stdout);
  return 0;
}

// determinism self-test: each seed is executed twice; event hashes and outcomes must agree
static int cmd_selftest(int argc, char **argv) {
  string mode = "model", prop = "C01"; uint64_t seed = 1, n = 50, start = 0;
  for (int i = 0; i + 1 < argc; i += 2) { string a = argv[i]; if (a == "--mode") mode = argv[i + 1]; else if (a == "--prop") prop = argv[i + 1]; else if (a == "--seed") seed = strtoull(argv[i + 1], 0, 10); else if (a == "--n") n = strtoull(argv[i + 1], 0, 10); else if (a == "--start") start = strtoull(argv[i + 1], 0, 10); }
  const Mode *m = find_mode(mode);
  if (!m) return 2;
  uint64_t base = mix64(seed, hash_str(prop));
  for (uint64_t i = start; i < start + n; i++) {
    Plan p = m->gen(mix64(base, i), prop);
    RunOut a, b;
    g_cur_plan_text = p.str();
    m->exec(p, &a);
    m->exec(p, &b);
    printf("HASH %llu %llx %zu\n", (unsigned long long)i, (unsigned long long)a.event_hash, a.viol.size());
    if (a.event_hash != b.event_hash || a.viol.size() != b.viol.size()) {
      printf("MISMATCH run %llu: %llx vs %llx\n", (unsigned long long)i, (unsigned long long)a.event_hash, (unsigned long long)b.event_hash);
      for (auto &kv : a.counts) if (b.counts[kv.first] != kv.second) printf("  count %s: %llu vs %llu\n", kv.first.c_str(), (unsigned long long)kv.second, (unsigned long long)b.counts[kv.first]);
      for (auto &kv : a.probes) if (b.probes[kv.first] != kv.second) printf("  probe %s: %llu vs %llu\n", kv.first.c_str(), (unsigned long long)kv.second, (unsigned long long)b.probes[kv.first]);
      return 1;
    }
  }
  return 0;
}

// One-time initialisations inside lcdb (pthread_once of the fd limiter, CRC table)
// contain yield points; run them before the first measured run so that the first
// run of a process is step-for-step identical to any later one.
static void warmup(long rlimit) {
  Plan p; p.mode = "warmup"; p.cfg.mmap = 0; p.cfg.rlimit = rlimit;
  RunOut out;
  begin_run(p, &out);
  {
    DbOptions opt; opt.set(p.cfg, true);
    ldb_t *db = nullptr;
    if (ldb_open("/sim/warm", &opt.o, &db) == LDB_OK) {
      string k = "k", v = "v", got;
      ldb_slice_t ks = S(k), vs = S(v);
      ldb_put(db, &ks, &vs, NULL);
      ldb_test_compact_memtable(db);
      db_get(db, k, &got, nullptr, 1, 1);
      ldb_close(db);
    }
  }
  end_run(&out);
}

extern "C" __attribute__((used)) const char *__asan_default_options() { return "exitcode=77:detect_leaks=0:allocator_release_to_os_interval_ms=-1:quarantine_size_mb=16:malloc_context_size=8:handle_abort=0:handle_segv=0:allocator_may_return_null=1"; }
extern "C" __attribute__((used)) const char *__tsan_default_options() { return "exitcode=77:halt_on_error=1:second_deadlock_stack=1:history_size=4:report_signal_unsafe=0"; }
extern "C" __attribute__((used)) const char *__ubsan_default_options() { return "halt_on_error=1:print_stacktrace=1:exitcode=77"; }

int main(int argc, char **argv) {
  if (argc < 2) { fprintf(stderr, "usage: lsim run|replay|gen|selftest ...\n"); return 2; }
  // replayable addresses: disable ASLR and re-exec once
  if (!getenv("LSIM_NO_REEXEC") && !(personality(0xffffffff) & ADDR_NO_RANDOMIZE)) {
    if (personality(ADDR_NO_RANDOMIZE) != -1) { setenv("LSIM_NO_REEXEC", "1", 1); execv("/proc/self/exe", argv); }
  }
  setvbuf(stdout, NULL, _IOLBF, 0);
  string err;
  if (!ref::selftest(&err)) { fprintf(stderr, "reference decoder self-test failed: %s\n", err.c_str()); return 2; }
  sim::init();
  sim::set_fatal_handler(sim_fatal);
  signal(SIGSEGV, on_signal); signal(SIGABRT, on_signal); signal(SIGBUS, on_signal); signal(SIGFPE, on_signal); signal(SIGILL, on_signal);
  if (__sanitizer_set_death_callback) __sanitizer_set_death_callback(on_sanitizer_death);
  string cmd = argv[1];
  {
    long rl = 1024;
    for (int i = 2; i + 1 < argc; i++) if (!strcmp(argv[i], "--rlimit")) rl = atol(argv[i + 1]);
    if (cmd == "replay" && argc >= 3) { // the fd limiter is sized once per process: take it from the plan
      FILE *f = fopen(argv[2], "r"); char line[2048];
      while (f && fgets(line, sizeof line, f)) { char *q = strstr(line, "rlimit="); if (!strncmp(line, "cfg ", 4) && q) rl = atol(q + 7); }
      if (f) fclose(f);
    }
    warmup(rl);
  }
  int rc = 2;
  if (cmd == "run") rc = cmd_run(argc - 2, argv + 2);
  else if (cmd == "replay" && argc >= 3) rc = cmd_replay(argv[2]);
  else if (cmd == "gen") rc = cmd_gen(argc - 2, argv + 2);
  else if (cmd == "selftest") rc = cmd_selftest(argc - 2, argv + 2);
  else fprintf(stderr, "unknown command\n");
  fflush(stdout);
  sim::harness_leave(); // balance TSan's ignore region of thread 0
  return rc;
}
