// Independent reference implementations of the LevelDB formats (oracle side).
#include "refdec.h"
#include <stdio.h>
#include <string.h>

namespace ref {

// ---------------------------------------------------------------- CRC-32C
static uint32_t g_tab[256];
static bool g_tab_init = false;
static void init_tab() {
  for (uint32_t i = 0; i < 256; i++) {
    uint32_t c = i;
    for (int k = 0; k < 8; k++) c = (c & 1) ? (c >> 1) ^ 0x82F63B78u : (c >> 1);
    g_tab[i] = c;
  }
  g_tab_init = true;
}
uint32_t crc32c(const void *data, size_t n) {
  if (!g_tab_init) init_tab();
  const unsigned char *p = (const unsigned char *)data;
  uint32_t c = 0xFFFFFFFFu;
  for (size_t i = 0; i < n; i++) c = g_tab[(c ^ p[i]) & 0xFF] ^ (c >> 8);
  return c ^ 0xFFFFFFFFu;
}
uint32_t crc32c_bitwise(const void *data, size_t n) {
  const unsigned char *p = (const unsigned char *)data;
  uint32_t c = 0xFFFFFFFFu;
  for (size_t i = 0; i < n; i++) {
    c ^= p[i];
    for (int k = 0; k < 8; k++) c = (c & 1) ? (c >> 1) ^ 0x82F63B78u : (c >> 1);
  }
  return c ^ 0xFFFFFFFFu;
}
uint32_t crc_mask(uint32_t c) { return ((c >> 15) | (c << 17)) + 0xa282ead8u; }

bool selftest(std::string *err) {
  // RFC 3720 test vectors
  unsigned char z[32]; memset(z, 0, 32);
  if (crc32c(z, 32) != 0x8a9136aau) { *err = "crc32c zeros"; return false; }
  memset(z, 0xff, 32);
  if (crc32c(z, 32) != 0x62a8ab43u) { *err = "crc32c ones"; return false; }
  for (int i = 0; i < 32; i++) z[i] = (unsigned char)i;
  if (crc32c(z, 32) != 0x46dd794eu) { *err = "crc32c incr"; return false; }
  std::string s;
  for (int i = 0; i < 5000; i++) s.push_back((char)(i * 131 + (i >> 3)));
  for (size_t off = 0; off < 16; off++)
    if (crc32c(s.data() + off, s.size() - off) != crc32c_bitwise(s.data() + off, s.size() - off)) { *err = "crc32c table vs bitwise"; return false; }
  return true;
}

// ---------------------------------------------------------------- coding
bool get_varint32(const std::string &s, size_t *pos, uint32_t *v) {
  uint32_t r = 0;
  for (int shift = 0; shift <= 28 && *pos < s.size(); shift += 7) {
    uint32_t b = (unsigned char)s[(*pos)++];
    r |= (b & 127) << shift;
    if (!(b & 128)) { *v = r; return true; }
  }
  return false;
}
bool get_varint64(const std::string &s, size_t *pos, uint64_t *v) {
  uint64_t r = 0;
  for (int shift = 0; shift <= 63 && *pos < s.size(); shift += 7) {
    uint64_t b = (unsigned char)s[(*pos)++];
    r |= (b & 127) << shift;
    if (!(b & 128)) { *v = r; return true; }
  }
  return false;
}
void put_varint32(std::string *s, uint32_t v) { while (v >= 128) { s->push_back((char)(v | 128)); v >>= 7; } s->push_back((char)v); }
void put_varint64(std::string *s, uint64_t v) { while (v >= 128) { s->push_back((char)(v | 128)); v >>= 7; } s->push_back((char)v); }
void put_fixed32(std::string *s, uint32_t v) { for (int i = 0; i < 4; i++) s->push_back((char)(v >> (8 * i))); }
void put_fixed64(std::string *s, uint64_t v) { for (int i = 0; i < 8; i++) s->push_back((char)(v >> (8 * i))); }
uint32_t get_fixed32(const char *p) { uint32_t v = 0; for (int i = 0; i < 4; i++) v |= (uint32_t)(unsigned char)p[i] << (8 * i); return v; }
uint64_t get_fixed64(const char *p) { uint64_t v = 0; for (int i = 0; i < 8; i++) v |= (uint64_t)(unsigned char)p[i] << (8 * i); return v; }
static bool get_lenstr(const std::string &s, size_t *pos, std::string *out) {
  uint32_t n;
  if (!get_varint32(s, pos, &n)) return false;
  if (*pos + n > s.size()) return false;
  out->assign(s, *pos, n);
  *pos += n;
  return true;
}
static void put_lenstr(std::string *s, const std::string &v) { put_varint32(s, (uint32_t)v.size()); s->append(v); }

// ---------------------------------------------------------------- log
static void emit_phys(std::string *file, int type, const char *p, size_t n) {
  std::string body;
  body.push_back((char)type);
  body.append(p, n);
  uint32_t c = crc_mask(crc32c(body.data(), body.size()));
  put_fixed32(file, c);
  file->push_back((char)(n & 0xff));
  file->push_back((char)(n >> 8));
  file->append(body);
}
void log_encode(std::string *file, const std::string &rec) {
  const char *p = rec.data();
  size_t left = rec.size();
  bool begin = true;
  do {
    size_t boff = file->size() % LOG_BLOCK;
    size_t leftover = LOG_BLOCK - boff;
    if (leftover < LOG_HEADER) { file->append(leftover, '\0'); leftover = LOG_BLOCK; }
    size_t avail = leftover - LOG_HEADER;
    size_t frag = left < avail ? left : avail;
    bool end = (left == frag);
    int type = begin && end ? 1 : begin ? 2 : end ? 4 : 3;
    emit_phys(file, type, p, frag);
    p += frag; left -= frag; begin = false;
  } while (left > 0);
}

LogDecode log_decode(const std::string &f) {
  LogDecode out;
  std::string cur; bool in_frag = false; size_t frag_start = 0; bool resync_drop = false;
  size_t nblocks = (f.size() + LOG_BLOCK - 1) / LOG_BLOCK;
  char msg[160];
  for (size_t b = 0; b < nblocks; b++) {
    size_t bstart = b * LOG_BLOCK, bend = bstart + LOG_BLOCK;
    bool last_block = bend >= f.size();
    if (bend > f.size()) bend = f.size();
    size_t p = bstart;
    while (p < bend) {
      size_t rem = bend - p;
      if (rem < LOG_HEADER) { // trailer (or torn header at end of file)
        break;
      }
      uint32_t crc = get_fixed32(f.data() + p);
      size_t len = (unsigned char)f[p + 4] | ((size_t)(unsigned char)f[p + 5] << 8);
      int type = (unsigned char)f[p + 6];
      if (LOG_HEADER + len > rem) {
        if (last_block && bend == f.size() && (f.size() % LOG_BLOCK) != 0) { p = bend; break; } // torn tail: clean
        if (last_block && bend == f.size()) { /* full last block with a bad length */ }
        snprintf(msg, sizeof msg, "bad record length %zu at offset %zu", len, p);
        out.problems.push_back(msg);
        if (in_frag) { in_frag = false; cur.clear(); }
        resync_drop = true;
        p = bend; break;
      }
      if (type == 0 && len == 0) {
        // A zero header followed by nothing but zeros up to the end of the block is indistinguishable from a
        // preallocated / zero-extended region (a legal tail): skipped silently.  Followed by data: bytes are dropped.
        bool all_zero = true;
        for (size_t q = p; q < bend; q++) if (f[q] != 0) { all_zero = false; break; }
        if (all_zero) { if (in_frag) { in_frag = false; cur.clear(); } resync_drop = true; p = bend; break; }
        snprintf(msg, sizeof msg, "zero header at offset %zu followed by non-zero bytes in the same block", p);
        out.problems.push_back(msg);
        if (in_frag) { in_frag = false; cur.clear(); }
        resync_drop = true;
        p = bend; break;
      }
      uint32_t want = crc_mask(crc32c(f.data() + p + 6, 1 + len));
      if (want != crc) {
        snprintf(msg, sizeof msg, "checksum mismatch at offset %zu", p);
        out.problems.push_back(msg);
        if (in_frag) { in_frag = false; cur.clear(); }
        resync_drop = true;
        p = bend; break;
      }
      const char *d = f.data() + p + LOG_HEADER;
      size_t pstart = p;
      p += LOG_HEADER + len;
      switch (type) {
        case 1:
          if (in_frag) { out.problems.push_back("partial record without end (FULL)"); in_frag = false; cur.clear(); }
          resync_drop = false;
          { LogRecord r; r.data.assign(d, len); r.start = pstart; r.end = p; out.records.push_back(r); out.consumed = p; }
          break;
        case 2:
          if (in_frag) { out.problems.push_back("partial record without end (FIRST)"); cur.clear(); }
          resync_drop = false;
          in_frag = true; frag_start = pstart; cur.assign(d, len);
          break;
        case 3:
          if (!in_frag) { if (!resync_drop) out.problems.push_back("missing start of fragmented record (MIDDLE)"); }
          else cur.append(d, len);
          break;
        case 4:
          if (!in_frag) { if (!resync_drop) out.problems.push_back("missing start of fragmented record (LAST)"); }
          else { cur.append(d, len); LogRecord r; r.data = cur; r.start = frag_start; r.end = p; out.records.push_back(r); out.consumed = p; in_frag = false; cur.clear(); }
          break;
        default:
          snprintf(msg, sizeof msg, "unknown record type %d at offset %zu", type, pstart);
          out.problems.push_back(msg);
          if (in_frag) { in_frag = false; cur.clear(); }
          break;
      }
    }
  }
  out.clean_eof = out.problems.empty();
  return out;
}

// ---------------------------------------------------------------- write batch
bool batch_decode(const std::string &rec, Batch *out) {
  if (rec.size() < 12) return false;
  out->seq = get_fixed64(rec.data());
  out->count = get_fixed32(rec.data() + 8);
  out->ops.clear();
  size_t p = 12;
  while (p < rec.size()) {
    int tag = (unsigned char)rec[p++];
    BatchOp op;
    if (tag == 1) { op.del = false; if (!get_lenstr(rec, &p, &op.key) || !get_lenstr(rec, &p, &op.value)) return false; }
    else if (tag == 0) { op.del = true; if (!get_lenstr(rec, &p, &op.key)) return false; }
    else return false;
    out->ops.push_back(op);
  }
  return out->ops.size() == out->count;
}

// ---------------------------------------------------------------- internal keys
bool ikey_parse(const std::string &ik, IKey *out) {
  if (ik.size() < 8) return false;
  uint64_t t = get_fixed64(ik.data() + ik.size() - 8);
  out->user.assign(ik, 0, ik.size() - 8);
  out->seq = t >> 8;
  out->type = (int)(t & 0xff);
  return out->type <= 1;
}
std::string ikey_make(const std::string &user, uint64_t seq, int type) {
  std::string s = user;
  put_fixed64(&s, (seq << 8) | (uint64_t)type);
  return s;
}

// ---------------------------------------------------------------- version edits
bool edit_decode(const std::string &rec, Edit *e) {
  *e = Edit();
  size_t p = 0;
  while (p < rec.size()) {
    uint32_t tag;
    if (!get_varint32(rec, &p, &tag)) return false;
    uint32_t lvl; uint64_t n;
    switch (tag) {
      case 1: if (!get_lenstr(rec, &p, &e->cmp)) return false; e->has_cmp = true; break;
      case 2: if (!get_varint64(rec, &p, &e->log)) return false; e->has_log = true; break;
      case 9: if (!get_varint64(rec, &p, &e->prev)) return false; e->has_prev = true; break;
      case 3: if (!get_varint64(rec, &p, &e->next)) return false; e->has_next = true; break;
      case 4: if (!get_varint64(rec, &p, &e->seq)) return false; e->has_seq = true; break;
      case 5: { std::string k; if (!get_varint32(rec, &p, &lvl) || lvl >= 7 || !get_lenstr(rec, &p, &k)) return false; e->compact_ptrs.push_back({(int)lvl, k}); break; }
      case 6: if (!get_varint32(rec, &p, &lvl) || lvl >= 7 || !get_varint64(rec, &p, &n)) return false; e->deleted.push_back({(int)lvl, n}); break;
      case 7: {
        FileMeta f;
        if (!get_varint32(rec, &p, &lvl) || lvl >= 7 || !get_varint64(rec, &p, &f.number) || !get_varint64(rec, &p, &f.size) ||
            !get_lenstr(rec, &p, &f.smallest) || !get_lenstr(rec, &p, &f.largest)) return false;
        f.level = (int)lvl;
        e->added.push_back(f);
        break;
      }
      default: return false;
    }
  }
  return true;
}
std::string edit_encode(const Edit &e) {
  std::string s;
  if (e.has_cmp) { put_varint32(&s, 1); put_lenstr(&s, e.cmp); }
  if (e.has_log) { put_varint32(&s, 2); put_varint64(&s, e.log); }
  if (e.has_prev) { put_varint32(&s, 9); put_varint64(&s, e.prev); }
  if (e.has_next) { put_varint32(&s, 3); put_varint64(&s, e.next); }
  if (e.has_seq) { put_varint32(&s, 4); put_varint64(&s, e.seq); }
  for (auto &c : e.compact_ptrs) { put_varint32(&s, 5); put_varint32(&s, (uint32_t)c.first); put_lenstr(&s, c.second); }
  for (auto &d : e.deleted) { put_varint32(&s, 6); put_varint32(&s, (uint32_t)d.first); put_varint64(&s, d.second); }
  for (auto &f : e.added) { put_varint32(&s, 7); put_varint32(&s, (uint32_t)f.level); put_varint64(&s, f.number); put_varint64(&s, f.size); put_lenstr(&s, f.smallest); put_lenstr(&s, f.largest); }
  return s;
}
bool VersionState::apply(const Edit &e, std::string *err) {
  if (e.has_cmp) cmp = e.cmp;
  if (e.has_log) log = e.log;
  if (e.has_prev) prev = e.prev;
  if (e.has_next) next = e.next;
  if (e.has_seq) seq = e.seq;
  for (auto &d : e.deleted) {
    if (!files[d.first].erase(d.second)) { if (err) *err = "edit deletes a file that is not in the level"; return false; }
  }
  for (auto &f : e.added) {
    for (int l = 0; l < 7; l++) if (files[l].count(f.number)) { if (err) *err = "edit adds a file number that is already live"; return false; }
    files[f.level][f.number] = f;
  }
  return true;
}

// ---------------------------------------------------------------- snappy
bool snappy_uncompress(const std::string &in, std::string *out) {
  size_t p = 0;
  uint32_t ulen;
  if (!get_varint32(in, &p, &ulen)) return false;
  out->clear();
  out->reserve(ulen);
  while (p < in.size()) {
    unsigned tag = (unsigned char)in[p++];
    unsigned kind = tag & 3;
    if (kind == 0) {
      size_t len = (tag >> 2) + 1;
      if (len > 60) {
        size_t nb = len - 60;
        if (p + nb > in.size()) return false;
        len = 0;
        for (size_t i = 0; i < nb; i++) len |= (size_t)(unsigned char)in[p + i] << (8 * i);
        len += 1;
        p += nb;
      }
      if (p + len > in.size()) return false;
      out->append(in, p, len);
      p += len;
    } else {
      size_t len, off;
      if (kind == 1) {
        if (p + 1 > in.size()) return false;
        len = 4 + ((tag >> 2) & 7);
        off = ((size_t)(tag >> 5) << 8) | (unsigned char)in[p];
        p += 1;
      } else if (kind == 2) {
        if (p + 2 > in.size()) return false;
        len = (tag >> 2) + 1;
        off = (unsigned char)in[p] | ((size_t)(unsigned char)in[p + 1] << 8);
        p += 2;
      } else {
        if (p + 4 > in.size()) return false;
        len = (tag >> 2) + 1;
        off = get_fixed32(in.data() + p);
        p += 4;
      }
      if (off == 0 || off > out->size()) return false;
      size_t start = out->size() - off;
      for (size_t i = 0; i < len; i++) out->push_back((*out)[start + i]);
    }
    if (out->size() > ulen) return false;
  }
  return out->size() == ulen;
}

// ---------------------------------------------------------------- tables
struct Handle { uint64_t off = 0, size = 0; };
static bool get_handle(const std::string &s, size_t *pos, Handle *h) { return get_varint64(s, pos, &h->off) && get_varint64(s, pos, &h->size); }

static bool read_block(const std::string &f, const Handle &h, std::string *out, bool *compressed, std::string *err) {
  if (h.off + h.size + 5 > f.size() || h.off + h.size + 5 < h.off) { *err = "block handle out of range"; return false; }
  const char *p = f.data() + h.off;
  int type = (unsigned char)p[h.size];
  uint32_t stored = get_fixed32(p + h.size + 1);
  uint32_t actual = crc_mask(crc32c(p, h.size + 1));
  if (stored != actual) { *err = "block checksum mismatch"; return false; }
  if (type == 0) { out->assign(p, h.size); *compressed = false; return true; }
  if (type == 1) { *compressed = true; if (!snappy_uncompress(std::string(p, h.size), out)) { *err = "snappy block does not decompress"; return false; } return true; }
  *err = "unknown block type";
  return false;
}

static bool parse_block(const std::string &b, std::vector<TableEntry> *out, std::string *err) {
  if (b.size() < 4) { *err = "block too small"; return false; }
  uint32_t nrestarts = get_fixed32(b.data() + b.size() - 4);
  if ((uint64_t)nrestarts * 4 + 4 > b.size()) { *err = "bad restart count"; return false; }
  size_t limit = b.size() - 4 - (size_t)nrestarts * 4;
  std::vector<uint32_t> restarts;
  for (uint32_t i = 0; i < nrestarts; i++) restarts.push_back(get_fixed32(b.data() + limit + 4 * i));
  size_t p = 0, ri = 0;
  std::string key;
  while (p < limit) {
    uint32_t shared, non_shared, vlen;
    size_t entry_off = p;
    if (!get_varint32(b, &p, &shared) || !get_varint32(b, &p, &non_shared) || !get_varint32(b, &p, &vlen)) { *err = "bad block entry header"; return false; }
    if (p + non_shared + vlen > limit || shared > key.size()) { *err = "bad block entry lengths"; return false; }
    if (ri < restarts.size() && restarts[ri] == entry_off) { if (shared != 0) { *err = "restart point entry shares a prefix"; return false; } ri++; }
    key.resize(shared);
    key.append(b, p, non_shared);
    p += non_shared;
    TableEntry e; e.ikey = key; e.value.assign(b, p, vlen);
    p += vlen;
    out->push_back(e);
  }
  if (ri != restarts.size() && !(limit == 0 && restarts.size() == 1 && restarts[0] == 0)) { *err = "restart array does not match entries"; return false; }
  return true;
}

TableDecode table_decode(const std::string &f) {
  TableDecode t;
  if (f.size() < 48) { t.error = "file shorter than footer"; return t; }
  std::string foot = f.substr(f.size() - 48);
  if (get_fixed64(foot.data() + 40) != 0xdb4775248b80fb57ULL) { t.error = "bad magic"; return t; }
  size_t p = 0;
  Handle meta, index;
  if (!get_handle(foot, &p, &meta) || !get_handle(foot, &p, &index)) { t.error = "bad footer handles"; return t; }
  t.index_off = index.off; t.index_len = index.size + 5; t.meta_off = meta.off; t.meta_len = meta.size + 5;
  std::string ib, mb; bool comp;
  if (!read_block(f, index, &ib, &comp, &t.error)) { t.error = "index: " + t.error; return t; }
  if (!read_block(f, meta, &mb, &comp, &t.error)) { t.error = "metaindex: " + t.error; return t; }
  std::vector<TableEntry> ments;
  if (!parse_block(mb, &ments, &t.error)) { t.error = "metaindex: " + t.error; return t; }
  for (auto &m : ments) if (m.ikey.compare(0, 7, "filter.") == 0) {
    t.has_filter = true;
    size_t q = 0; Handle fh;
    if (get_handle(m.value, &q, &fh)) t.regions.push_back({(size_t)fh.off, (size_t)fh.size + 5});
  }
  std::vector<TableEntry> ients;
  if (!parse_block(ib, &ients, &t.error)) { t.error = "index: " + t.error; return t; }
  for (auto &ie : ients) {
    size_t q = 0; Handle h;
    if (!get_handle(ie.value, &q, &h)) { t.error = "bad data block handle"; return t; }
    std::string db; bool c = false;
    if (!read_block(f, h, &db, &c, &t.error)) { t.error = "data: " + t.error; return t; }
    t.regions.push_back({(size_t)h.off, (size_t)h.size + 5});
    size_t before = t.entries.size();
    if (!parse_block(db, &t.entries, &t.error)) { t.error = "data: " + t.error; return t; }
    t.data_blocks++;
    if (c) t.compressed_blocks++;
    if (t.entries.size() == before) { t.error = "empty data block"; return t; }
  }
  t.regions.push_back({t.meta_off, t.meta_len});
  t.regions.push_back({t.index_off, t.index_len});
  t.ok = true;
  return t;
}

} // namespace ref
