#pragma once
#include <stdint.h>
#include <string>

static inline uint64_t splitmix64(uint64_t &x) {
  uint64_t z = (x += 0x9E3779B97F4A7C15ULL);
  z = (z ^ (z >> 30)) * 0xBF58476D1CE4E5B9ULL;
  z = (z ^ (z >> 27)) * 0x94D049BB133111EBULL;
  return z ^ (z >> 31);
}

static inline uint64_t mix64(uint64_t a, uint64_t b) {
  uint64_t x = a ^ (b + 0x9E3779B97F4A7C15ULL + (a << 6) + (a >> 2));
  return splitmix64(x);
}

static inline uint64_t hash_bytes(const void *p, size_t n, uint64_t h = 1469598103934665603ULL) {
  const unsigned char *s = (const unsigned char *)p;
  for (size_t i = 0; i < n; i++) { h ^= s[i]; h *= 1099511628211ULL; }
  return h;
}
static inline uint64_t hash_str(const std::string &s, uint64_t h = 1469598103934665603ULL) {
  return hash_bytes(s.data(), s.size(), h);
}

struct Rng {
  uint64_t s;
  explicit Rng(uint64_t seed = 1) : s(seed) {}
  uint64_t next() { return splitmix64(s); }
  // uniform in [0, n)
  uint64_t below(uint64_t n) { return n ? next() % n : 0; }
  // uniform in [lo, hi]
  uint64_t range(uint64_t lo, uint64_t hi) { return lo + below(hi - lo + 1); }
  double unit() { return (next() >> 11) * (1.0 / 9007199254740992.0); }
  bool chance(double p) { return unit() < p; }
  template <class T, size_t N> T pick(const T (&a)[N]) { return a[below(N)]; }
  Rng fork(uint64_t tag) { return Rng(mix64(next(), tag)); }
};
