// Under ThreadSanitizer the harness (simulated file system, scheduler, plan
// interpreter) must be invisible: its hand-off is hidden from TSan on purpose,
// so any harness memory access that TSan observes through an interceptor
// (malloc/free/memcpy/memcmp...) would look like a race.  Harness code therefore
// runs with TSan's per-thread "ignore reads and writes" switched on; lcdb code
// runs with it off.  Synchronisation events are never ignored.
#pragma once
namespace sim {
void harness_enter();   // depth counted per thread
void harness_leave();
int harness_suspend();  // lcdb API entry: returns the depth to restore
void harness_resume(int depth);
struct HarnessScope { HarnessScope() { harness_enter(); } ~HarnessScope() { harness_leave(); } };
}
