// concurrency-mode: 2..8 caller threads share one handle under the seeded
// scheduler.  Histories are stamped with scheduler step numbers and judged by a
// Wing-Gong linearizability search (C08), cheap register/batch checks on every
// history (C08, C04), exact deadlock detection and a step budget (C09), and the
// sanitizer the binary was built with (C10: ThreadSanitizer / AddressSanitizer).
#include "lsim.h"
#include "monitors.h"
#include <algorithm>
#include <stdio.h>
#include <string.h>
#include <unordered_set>

namespace {

struct HOp {
  int tid = 0, kind = 0, opidx = 0;
  uint64_t inv = 0, ret = 0;
  int rc = 0;
  string key;
  std::vector<Upd> ups;
  bool found = false; string val;                 // GET
  std::vector<std::pair<string, string>> rows;    // SNAP / ITER: observed (key,value) for every key of the key space that was found
  bool scan = false;
};

struct Conc {
  const Plan *p = nullptr;
  ldb_t *db = nullptr;
  std::vector<string> keys;                       // whole key space
  std::vector<std::vector<int>> per_thread;
  std::vector<std::vector<HOp>> hist;
  int backups = 0;
};
Conc *g_c = nullptr;

// ---- value identity: every written value is unique; map observed bytes back to the writing update
struct ValTable {
  std::map<string, int64_t> id_of;      // value bytes -> id (tag)
  int64_t lookup(const string &v) const { auto it = id_of.find(v); return it == id_of.end() ? -2 : it->second; }
};

void conc_thread(void *arg) {
  int tid = (int)(intptr_t)arg;
  Conc &C = *g_c;
  const Config &cfg = C.p->cfg;
  for (int oi : C.per_thread[tid]) {
    if (failed()) break;
    const Op &o = C.p->ops[oi];
    simfs::set_current_op(oi);
    HOp h; h.tid = tid; h.kind = o.kind; h.opidx = oi; h.key = o.key;
    switch (o.kind) {
      case O_PUT: {
        Upd u; u.key = o.key; u.tag = o.tag; u.len = o.len; u.fill = o.fill; h.ups.push_back(u);
        string v = mkval(o.tag, o.len, o.fill);
        ldb_slice_t k = S(o.key), vv = S(v); ldb_writeopt_t wo; wo.sync = o.sync;
        h.inv = sim::step(); h.rc = ldb_put(C.db, &k, &vv, &wo); h.ret = sim::step();
        break;
      }
      case O_DEL: {
        Upd u; u.key = o.key; u.del = true; h.ups.push_back(u);
        ldb_slice_t k = S(o.key); ldb_writeopt_t wo; wo.sync = o.sync;
        h.inv = sim::step(); h.rc = ldb_del(C.db, &k, &wo); h.ret = sim::step();
        break;
      }
      case O_WRITE: {
        h.ups = o.ups;
        ldb_batch_t *b = ldb_batch_create();
        for (auto &u : o.ups) { ldb_slice_t k = S(u.key); if (u.del) ldb_batch_del(b, &k); else { string v = mkval(u.tag, u.len, u.fill); ldb_slice_t vv = S(v); ldb_batch_put(b, &k, &vv); } }
        ldb_writeopt_t wo; wo.sync = o.sync;
        h.inv = sim::step(); h.rc = ldb_write(C.db, b, &wo); h.ret = sim::step();
        ldb_batch_destroy(b);
        break;
      }
      case O_GET: {
        h.inv = sim::step();
        h.rc = db_get(C.db, o.key, &h.val, nullptr, cfg.verify, cfg.fillc);
        h.ret = sim::step();
        h.found = h.rc == LDB_OK;
        if (h.rc == LDB_NOTFOUND) h.rc = 0;
        break;
      }
      case O_SNAP: {
        h.inv = sim::step();
        const ldb_snapshot_t *s = ldb_snapshot(C.db);
        h.ret = sim::step();
        for (auto &k : C.keys) {
          string v; int rc = db_get(C.db, k, &v, s, cfg.verify, cfg.fillc);
          if (rc == LDB_OK) h.rows.push_back({k, v});
          else if (rc != LDB_NOTFOUND) h.rc = rc;
        }
        if (o.b == 1) { // the snapshot also fixes what an iterator sees
          std::vector<std::pair<string, string>> rows;
          int rc = db_scan(C.db, &rows, s, cfg.verify);
          rows.erase(std::remove_if(rows.begin(), rows.end(), [](const std::pair<string, string> &kv) { return kv.first.compare(0, 5, "zpad/") == 0 || kv.first == "b-pad"; }), rows.end());
          if (rc != LDB_OK) h.rc = rc;
          else if (rows != h.rows) violation("C06", "snapshot_get_vs_iter", "thread %d: gets and a scan through one snapshot disagree (%zu vs %zu entries)", tid, h.rows.size(), rows.size());
        }
        if (o.b == 2 && h.rc == 0) {
          // C06 under concurrency: the snapshot is held while this thread forces a flush and a level-0 compaction
          // (other threads keep writing); what it shows afterwards must be what it showed before
          ldb_test_compact_memtable(C.db);
          ldb_test_compact_range(C.db, 0, NULL, NULL);
          std::vector<std::pair<string, string>> again;
          for (auto &k : C.keys) { string v; int rc = db_get(C.db, k, &v, s, cfg.verify, cfg.fillc); if (rc == LDB_OK) again.push_back({k, v}); else if (rc != LDB_NOTFOUND) h.rc = rc; }
          count("snapshot_reread_checks");
          if (h.rc == 0 && again != h.rows) {
            string why;
            for (auto &kv : h.rows) { bool f = false; for (auto &kv2 : again) if (kv2 == kv) f = true; if (!f) { string now = "NOTFOUND"; for (auto &kv2 : again) if (kv2.first == kv.first) now = printable(kv2.second, 16); why = "key " + printable(kv.first) + " showed " + printable(kv.second, 16) + " before and shows " + now + " now"; break; } }
            if (why.empty()) why = "an entry appeared that the snapshot did not show before";
            if (getenv("LSIM_DEBUG_C06")) {
              { sim::NoPreempt np; string v3; int rc3 = db_get(C.db, "c2", &v3, s, cfg.verify, cfg.fillc); fprintf(stderr, "  re-get c2 (no preempt) -> %s %s\n", rcname(rc3), printable(v3, 8).c_str()); fprintf(stderr, "%s", db_sstables(C.db).c_str()); }
              std::vector<SstFile> files; parse_sstables(db_sstables(C.db), &files);
              for (auto &f : files) { string data; if (!simfs::read_file(table_path("/sim/db", f.number), &data)) continue; ref::TableDecode td = ref::table_decode(data); for (auto &e : td.entries) { ref::IKey k; if (ref::ikey_parse(e.ikey, &k) && k.user == h.rows[0].first.substr(0,0) + "c2") fprintf(stderr, "  L%d #%llu c2@%llu type=%d val=%s\n", f.level, (unsigned long long)f.number, (unsigned long long)k.seq, k.type, printable(e.value, 8).c_str()); } }
              fprintf(stderr, "  snapshot seq %llu; R1:", (unsigned long long)*(const uint64_t *)s); for (auto &kv : h.rows) fprintf(stderr, " %s=%s", printable(kv.first).c_str(), printable(kv.second, 8).c_str()); fprintf(stderr, "\n  R2:"); for (auto &kv : again) fprintf(stderr, " %s=%s", printable(kv.first).c_str(), printable(kv.second, 8).c_str()); fprintf(stderr, "\n");
            }
            violation("C06", "snapshot_changed", "thread %d: a snapshot taken at steps [%llu,%llu] and held across a flush and a compaction no longer shows what it showed: %s", tid, (unsigned long long)h.inv, (unsigned long long)h.ret, why.c_str());
          }
        }
        ldb_release(C.db, s);
        break;
      }
      case O_ITER_NEW: { // compound: create an iterator, then scan everything through it
        ldb_readopt_t ro = *ldb_iteropt_default; ro.verify_checksums = cfg.verify; ro.fill_cache = cfg.fillc;
        h.inv = sim::step();
        ldb_iter_t *it = ldb_iterator(C.db, &ro);
        h.ret = sim::step();
        h.scan = true;
        auto is_pad = [](const string &k) { return k.compare(0, 5, "zpad/") == 0 || k == "b-pad"; };
        for (ldb_iter_first(it); ldb_iter_valid(it); ldb_iter_next(it)) { string k = str_of(ldb_iter_key(it)); if (!is_pad(k)) h.rows.push_back({k, str_of(ldb_iter_value(it))}); }
        h.rc = ldb_iter_status(it);
        if (o.b == 1 && h.rc == LDB_OK) {
          std::vector<std::pair<string, string>> back;
          for (ldb_iter_last(it); ldb_iter_valid(it); ldb_iter_prev(it)) { string k = str_of(ldb_iter_key(it)); if (!is_pad(k)) back.push_back({k, str_of(ldb_iter_value(it))}); }
          std::reverse(back.begin(), back.end());
          if (back != h.rows) violation("C07", "scan_directions", "thread %d: forward and backward traversal of one iterator disagree under concurrent writes (%zu vs %zu entries)", tid, h.rows.size(), back.size());
        }
        if (o.b == 2 && h.rc == LDB_OK) {
          // C07 under concurrency: the iterator outlives a flush and a compaction issued by this thread (others keep
          // writing, files it reads from are retired); a second traversal must yield exactly the same entries
          ldb_test_compact_memtable(C.db);
          ldb_test_compact_range(C.db, 0, NULL, NULL);
          std::vector<std::pair<string, string>> again;
          for (ldb_iter_first(it); ldb_iter_valid(it); ldb_iter_next(it)) { string k = str_of(ldb_iter_key(it)); if (!is_pad(k)) again.push_back({k, str_of(ldb_iter_value(it))}); }
          int st = ldb_iter_status(it);
          count("iterator_rescan_checks");
          if (st != LDB_OK) violation("C07", "iter_status", "thread %d: an iterator held across a flush and a compaction reports %s", tid, rcname(st));
          else if (again != h.rows) violation("C07", "iterator_view_changed", "thread %d: an iterator created at steps [%llu,%llu] yields %zu entries on its first traversal and %zu (or different ones) after a flush and a compaction", tid, (unsigned long long)h.inv, (unsigned long long)h.ret, h.rows.size(), again.size());
        }
        ldb_iter_destroy(it);
        break;
      }
      case O_FLUSH: h.inv = sim::step(); h.rc = ldb_test_compact_memtable(C.db); h.ret = sim::step(); break;
      case O_COMPACT_RANGE: h.inv = sim::step(); ldb_test_compact_range(C.db, o.a < 0 ? 0 : o.a > 5 ? 5 : o.a, NULL, NULL); h.ret = sim::step(); break;
      case O_COMPACT: h.inv = sim::step(); ldb_compact(C.db, NULL, NULL); h.ret = sim::step(); break;
      case O_PROPERTY: {
        static const char *props[] = {"leveldb.stats", "leveldb.approximate-memory-usage", "leveldb.num-files-at-level0", "leveldb.sstables"};
        char *v = nullptr;
        h.inv = sim::step();
        if (ldb_property(C.db, props[(o.a < 0 ? 0 : o.a) % 4], &v) && v) ldb_free(v);
        h.ret = sim::step();
        break;
      }
      case O_APPROX: {
        ldb_range_t r; string a = C.keys.front(), b = C.keys.back(); r.start = S(a); r.limit = S(b);
        ldb_uint64_t sz;
        h.inv = sim::step(); ldb_approximate_sizes(C.db, &r, 1, &sz); h.ret = sim::step();
        break;
      }
      case O_BACKUP: {
        string name = "/sim/bak" + std::to_string(tid) + "_" + std::to_string(oi);
        h.inv = sim::step(); h.rc = ldb_backup(C.db, name.c_str()); h.ret = sim::step();
        h.key = name;
        probe("backups");
        break;
      }
      default: continue;
    }
    if (h.rc != 0 && h.kind != O_GET) violation("C08", "op_failed", "thread %d: %s returned %s in a fault-free run", tid, opkind_name[o.kind], rcname(h.rc));
    C.hist[tid].push_back(std::move(h));
  }
}

// ---------------------------------------------------------------- linearizability (Wing & Gong search with memoisation)
struct LOp {
  int tid; uint64_t inv, ret; int type;            // 0 write, 1 read (one key), 2 snapshot read (all keys)
  std::vector<std::pair<int, int64_t>> w;          // key index -> value id (-1 delete)
  std::vector<int64_t> r;                          // type 1: r[0] observed id for key kidx ; type 2: observed id per key
  int kidx = -1;
  const HOp *src;
};

struct Lin {
  std::vector<LOp> ops;
  int nkeys;
  uint64_t nodes = 0, cap;
  std::unordered_set<uint64_t> memo;
  std::vector<int> order;
  bool exhausted = false;
  bool ok(const LOp &o, const std::vector<int64_t> &st) const {
    if (o.type == 1) return st[o.kidx] == o.r[0];
    if (o.type == 2) { for (int k = 0; k < nkeys; k++) if (st[k] != o.r[k]) return false; }
    return true;
  }
  bool search(uint64_t mask, std::vector<int64_t> &st) {
    size_t n = ops.size();
    if (mask == (n == 64 ? ~0ULL : ((1ULL << n) - 1))) return true;
    if (++nodes > cap) { exhausted = true; return false; }
    uint64_t h = mask * 0x9E3779B97F4A7C15ULL;
    for (int k = 0; k < nkeys; k++) h = mix64(h, (uint64_t)st[k]);
    if (memo.count(h)) return false;
    // the earliest return among pending operations bounds which ones may go next
    uint64_t minret = ~0ULL;
    for (size_t i = 0; i < n; i++) if (!(mask >> i & 1)) minret = std::min(minret, ops[i].ret);
    for (size_t i = 0; i < n; i++) {
      if (mask >> i & 1) continue;
      const LOp &o = ops[i];
      if (o.inv > minret) continue; // some pending operation returned strictly before this one was invoked
      if (!ok(o, st)) continue;
      std::vector<std::pair<int, int64_t>> undo;
      for (auto &kv : o.w) { undo.push_back({kv.first, st[kv.first]}); st[kv.first] = kv.second; }
      bool r = search(mask | (1ULL << i), st);
      for (size_t u = undo.size(); u-- > 0;) st[undo[u].first] = undo[u].second;
      if (r) return true;
      if (exhausted) return false;
    }
    memo.insert(h);
    return false;
  }
};

string describe_hist(const std::vector<const HOp *> &all, const ValTable &) {
  string s;
  char b[256];
  for (auto *h : all) {
    snprintf(b, sizeof b, "\n    t%d [%llu,%llu] %s", h->tid, (unsigned long long)h->inv, (unsigned long long)h->ret, opkind_name[h->kind]);
    s += b;
    if (h->kind == O_GET) s += " " + printable(h->key) + " -> " + (h->found ? printable(h->val, 16) : string("NOTFOUND"));
    else if (h->kind == O_SNAP || h->kind == O_ITER_NEW) { for (auto &r : h->rows) s += " " + printable(r.first) + "=" + printable(r.second, 10); }
    else for (auto &u : h->ups) s += " " + printable(u.key) + (u.del ? "=DEL" : "=" + printable(mkval(u.tag, u.len, u.fill), 10));
    if (s.size() > 6000) { s += "\n    ..."; break; }
  }
  return s;
}

void judge(Conc &C, const std::vector<HOp> &prefill, const std::vector<HOp> &finals) {
  const Plan &p = *C.p;
  std::map<string, int> kidx;
  for (size_t i = 0; i < C.keys.size(); i++) kidx[C.keys[i]] = (int)i;
  int nkeys = (int)C.keys.size();
  ValTable vt;
  std::vector<const HOp *> all;
  for (auto &h : prefill) all.push_back(&h);
  for (auto &th : C.hist) for (auto &h : th) all.push_back(&h);
  for (auto &h : finals) all.push_back(&h);
  for (auto *h : all) for (auto &u : h->ups) if (!u.del) vt.id_of[mkval(u.tag, u.len, u.fill)] = (int64_t)u.tag;
  // writes: who wrote value id, and when
  struct W { uint64_t inv, ret; int tid; int opidx; };
  std::map<int64_t, W> wr;
  std::map<int, std::vector<std::pair<const HOp *, int64_t>>> writes_of_key; // includes deletes (-1)
  for (auto *h : all) for (auto &u : h->ups) {
    if (!u.del) wr[(int64_t)u.tag] = {h->inv, h->ret, h->tid, h->opidx};
    if (kidx.count(u.key)) writes_of_key[kidx[u.key]].push_back({h, u.del ? -1 : (int64_t)u.tag});
  }
  // ---- cheap necessary conditions on every history
  bool overlapped = false;
  for (size_t i = 0; i < all.size() && !overlapped; i++) for (size_t j = i + 1; j < all.size(); j++)
    if (all[i]->tid != all[j]->tid && all[i]->inv < all[j]->ret && all[j]->inv < all[i]->ret) { overlapped = true; break; }
  if (overlapped) probe("overlapping_operations");
  auto observe = [&](const HOp *h, const string &key, bool found, const string &val, int64_t *id_out) -> bool {
    if (!found) { *id_out = -1; return true; }
    int64_t id = vt.lookup(val);
    if (id == -2) { violation("C08", "value_never_written", "thread %d: %s of key %s returns bytes that no operation wrote: %s", h->tid, opkind_name[h->kind], printable(key).c_str(), printable(val).c_str()); return false; }
    *id_out = id;
    const W &w = wr[id];
    if (w.inv >= h->ret) { violation("C08", "read_from_future", "thread %d: read of key %s (returned at step %llu) yields a value whose write was only invoked at step %llu", h->tid, printable(key).c_str(), (unsigned long long)h->ret, (unsigned long long)w.inv); return false; }
    return true;
  };
  std::map<std::pair<int, int>, std::pair<int64_t, const HOp *>> last_read; // (tid,key) -> last observed id
  for (auto *h : all) {
    if (failed()) return;
    std::vector<std::pair<string, std::pair<bool, string>>> obs;
    if (h->kind == O_GET) obs.push_back({h->key, {h->found, h->val}});
    else if (h->kind == O_SNAP || h->kind == O_ITER_NEW) {
      std::map<string, string> m(h->rows.begin(), h->rows.end());
      if (h->kind == O_ITER_NEW) {
        for (size_t i = 1; i < h->rows.size(); i++) if (!(h->rows[i - 1].first < h->rows[i].first)) { violation("C07", "scan_order", "thread %d: iterator yields keys out of order or twice under concurrent writes", h->tid); return; }
        for (auto &r : h->rows) if (!kidx.count(r.first)) { violation("C08", "unknown_key", "thread %d: scan yields key %s that was never written", h->tid, printable(r.first).c_str()); return; }
      }
      for (auto &k : C.keys) { auto it = m.find(k); obs.push_back({k, {it != m.end(), it == m.end() ? string() : it->second}}); }
      // C04: keys of one group are only ever written together with one value: a snapshot sees all or none of each batch
      std::map<string, std::set<int64_t>> grp;
      for (auto &k : C.keys) if (k[0] == 'g') { auto it = m.find(k); string g = k.substr(0, k.find('/')); grp[g].insert(it == m.end() ? -1 : vt.lookup(it->second)); }
      for (auto &g : grp) if (g.second.size() > 1) { violation("C04", "batch_visibility", "thread %d: a %s taken at steps [%llu,%llu] shows group %s partially updated (the keys of a group are only written together in one batch)%s", h->tid, h->kind == O_SNAP ? "snapshot" : "new iterator", (unsigned long long)h->inv, (unsigned long long)h->ret, g.first.c_str(), describe_hist(all, vt).c_str()); return; }
      count("snapshot_group_checks", grp.size());
    }
    for (auto &o : obs) {
      int64_t id;
      if (!observe(h, o.first, o.second.first, o.second.second, &id)) return;
      int ki = kidx[o.first];
      // stale: some write to the key completed before this read began AND started after the observed write completed
      uint64_t obs_ret = id >= 0 ? wr[id].ret : 0; uint64_t obs_inv = id >= 0 ? wr[id].inv : 0;
      bool observed_is_initial_absent = (id == -1);
      for (auto &wk : writes_of_key[ki]) {
        const HOp *w = wk.first;
        if (wk.second == id && id != -1) continue;
        if (w->ret < h->inv) {
          bool after_observed;
          if (observed_is_initial_absent) {
            // NOTFOUND can stem from the initial state or from any delete; stale only if a put completed before the read and no delete could follow it
            if (wk.second == -1) continue;
            bool delete_may_follow = false;
            for (auto &d : writes_of_key[ki]) if (d.second == -1 && d.first->ret > w->inv && d.first->inv < h->ret) delete_may_follow = true;
            after_observed = !delete_may_follow;
          } else after_observed = w->inv > obs_ret;
          if (after_observed) { violation("C08", "stale_read", "thread %d: %s of key %s at steps [%llu,%llu] returns %s although a later write of that key (thread %d, steps [%llu,%llu]) had completed before the read began%s", h->tid, opkind_name[h->kind], printable(o.first).c_str(), (unsigned long long)h->inv, (unsigned long long)h->ret, id == -1 ? "NOTFOUND" : printable(o.second.second, 16).c_str(), w->tid, (unsigned long long)w->inv, (unsigned long long)w->ret, describe_hist(all, vt).c_str()); return; }
        }
      }
      (void)obs_inv;
      // reads of one thread never go backwards
      auto key2 = std::make_pair(h->tid, ki);
      auto lr = last_read.find(key2);
      if (lr != last_read.end() && lr->second.first >= 0 && id >= 0 && lr->second.first != id) {
        const W &prev = wr[lr->second.first], &cur = wr[id];
        if (cur.ret < prev.inv) { violation("C08", "read_goes_backwards", "thread %d: successive reads of key %s go backwards: first the value written at steps [%llu,%llu], then the value whose write had completed earlier at [%llu,%llu]", h->tid, printable(o.first).c_str(), (unsigned long long)prev.inv, (unsigned long long)prev.ret, (unsigned long long)cur.inv, (unsigned long long)cur.ret); return; }
      }
      last_read[key2] = {id, h};
      count("register_checks");
    }
  }
  // ---- full linearizability search on small histories
  if (p.geti("lin", 0) && all.size() <= 64) {
    Lin L; L.nkeys = nkeys; L.cap = (uint64_t)p.geti("lin_cap", 2000000);
    for (auto *h : all) {
      LOp o; o.tid = h->tid; o.inv = h->inv; o.ret = h->ret; o.src = h;
      if (!h->ups.empty()) { o.type = 0; for (auto &u : h->ups) if (kidx.count(u.key)) o.w.push_back({kidx[u.key], u.del ? -1 : (int64_t)u.tag}); }
      else if (h->kind == O_GET) { if (!kidx.count(h->key)) continue; o.type = 1; o.kidx = kidx[h->key]; o.r.push_back(h->found ? vt.lookup(h->val) : -1); }
      else if (h->kind == O_SNAP || h->kind == O_ITER_NEW) { o.type = 2; o.r.assign(nkeys, -1); for (auto &r : h->rows) if (kidx.count(r.first)) o.r[kidx[r.first]] = vt.lookup(r.second); }
      else continue;
      L.ops.push_back(o);
    }
    std::vector<int64_t> st(nkeys, -1);
    bool ok = L.search(0, st);
    count("lin_histories");
    count("lin_nodes", L.nodes);
    if (L.exhausted) probe("lin_inconclusive");
    else if (!ok) violation("C08", "not_linearizable", "no sequential order of the %zu operations explains their results while respecting real time (search explored %llu nodes):%s", L.ops.size(), (unsigned long long)L.nodes, describe_hist(all, vt).c_str());
    else probe("lin_ok");
  }
}

} // namespace

// ---------------------------------------------------------------------------
Plan gen_conc(uint64_t seed, const string &prop) {
  Rng r(mix64(seed, 0xC0C));
  Plan p;
  p.mode = "conc"; p.seed = seed;
  p.cfg = random_config(r);
  p.cfg.cmp = 0;
  if (r.chance(0.85)) p.cfg.wbs = 65536;
  p.params["prop"] = prop;
  // "starved reader" flavour (C08): long histories under the priority scheduler, a memtable about to switch, extra
  // flushes and compactions - a caller parked in front of a lock while others overwrite, flush and compact behind it
  bool starve = prop == "C08" && r.chance(0.25);
  bool small = starve ? false : prop == "C08" ? r.chance(0.8) : prop == "C04" ? r.chance(0.4) : r.chance(0.15);
  int nthreads = (int)r.range(2, small ? 5 : 8);
  p.sc = random_sched(r, true);
  if (prop == "C09" && r.chance(0.4)) p.sc.policy = r.chance(0.6) ? sim::P_BG_STARVE : sim::P_BG_EAGER;
  if (starve) { p.sc.policy = sim::P_PCT; p.sc.pct_depth = (int)r.range(2, 3); if (nthreads < 4) nthreads = (int)r.range(4, 6); }
  p.seti("threads", nthreads);
  p.seti("lin", small ? 1 : 0);
  int per = small ? (int)r.range(3, 60 / nthreads > 12 ? 12 : 60 / nthreads) : (int)r.range(15, prop == "C10" ? 120 : 70);
  // key space: single keys c0.. and groups g<j>/<i> (always written together)
  int nsingle = (int)r.range(1, small ? 3 : 6), ngroups = (int)r.range(1, 2), gsize = (int)r.range(2, 3);
  if (prop == "C04") { ngroups = 2; gsize = 3; }
  p.seti("nsingle", nsingle); p.seti("ngroups", ngroups); p.seti("gsize", gsize);
  // prefill so that the memtable switch and a background flush happen inside the history
  long brink = starve ? (long)r.range(55000, 66000) : r.chance(0.6) ? (long)r.range(40000, 70000) : 0;
  p.seti("prefill", brink);
  p.seti("l0_files", r.chance(prop == "C09" ? 0.5 : 0.15) ? (int)r.range(3, prop == "C09" ? 15 : 11) : 0);
  uint64_t tag = 1000;
  double w[O_NKINDS] = {0};
  auto sw = [&](double base) { static const double f[] = {0, 0.5, 1, 1, 2, 3}; return base * r.pick(f); };
  w[O_PUT] = 10 * (0.5 + r.unit()); w[O_DEL] = sw(3); w[O_WRITE] = 6 * (0.5 + r.unit()); w[O_GET] = sw(8); w[O_SNAP] = sw(4); w[O_ITER_NEW] = sw(3);
  w[O_FLUSH] = sw(0.7); w[O_COMPACT_RANGE] = sw(0.7); w[O_COMPACT] = sw(0.15);
  if (prop == "C10" || prop == "C09") { w[O_PROPERTY] = sw(1); w[O_APPROX] = sw(0.7); w[O_BACKUP] = sw(0.5); }
  if (prop == "C04") { w[O_WRITE] += 8; w[O_SNAP] += 6; w[O_ITER_NEW] += 4; }
  if (prop == "C14") { w[O_FLUSH] += 2; w[O_COMPACT_RANGE] += 3; w[O_PUT] += 6; w[O_DEL] += 4; }
  if (prop == "C07") { w[O_ITER_NEW] += 10; w[O_PUT] += 6; w[O_DEL] += 3; w[O_WRITE] += 3; }
  if (prop == "C06") { w[O_SNAP] += 10; w[O_PUT] += 6; w[O_DEL] += 3; w[O_WRITE] += 3; }
  if (prop == "C09") { w[O_PUT] += 8; w[O_FLUSH] += 1; w[O_COMPACT_RANGE] += 1; w[O_BACKUP] += 0.5; }
  if (starve) { w[O_GET] += 10; w[O_PUT] += 6; w[O_FLUSH] += 2; w[O_COMPACT_RANGE] += 3; }
  double tot = 0; for (double x : w) tot += x;
  bool bigvals = !small && r.chance(0.5);
  bool hugevals = !small && !g_light && r.chance(0.12); // batches beyond the group-commit size limits (leader + 128 KiB / 1 MiB)
  for (int t = 0; t < nthreads; t++)
    for (int i = 0; i < per; i++) {
      double x = r.unit() * tot; int k = 0;
      for (; k < O_NKINDS - 1; k++) { if (x < w[k]) break; x -= w[k]; }
      Op o; o.tid = t; o.kind = k;
      auto skey = [&]() { return "c" + std::to_string(r.below(nsingle)); };
      auto vlen = [&]() -> uint32_t { int c = (int)r.below(100); if (hugevals && c > 75) return c > 90 ? (uint32_t)r.range(131072, 200000) : (uint32_t)r.range(20000, 40000); return c < 5 ? 1 : (bigvals && c > 60) ? (uint32_t)r.range(2000, 9000) : (uint32_t)r.range(10, 400); };
      switch (k) {
        case O_PUT: o.key = skey(); o.tag = tag++; o.len = vlen(); o.fill = (int)r.below(2); o.sync = r.chance(0.15); break;
        case O_DEL: o.key = skey(); o.sync = r.chance(0.1); break;
        case O_WRITE: {
          int g = (int)r.below(ngroups);
          bool del = r.chance(0.15);
          uint64_t tg = tag++; uint32_t len = vlen(); int fill = (int)r.below(2);
          for (int q = 0; q < gsize; q++) { Upd u; u.key = "g" + std::to_string(g) + "/" + std::to_string(q); u.del = del; u.tag = tg; u.len = len; u.fill = fill; o.ups.push_back(u); }
          if (r.chance(0.3)) { Upd u; u.key = skey(); u.tag = tag++; u.len = vlen(); u.fill = 0; o.ups.push_back(u); }
          o.sync = r.chance(0.15);
          break;
        }
        case O_GET: o.key = r.chance(0.7) ? skey() : "g" + std::to_string(r.below(ngroups)) + "/" + std::to_string(r.below(gsize)); break;
        case O_SNAP: o.b = r.chance(prop == "C06" ? 0.6 : 0.12) ? 2 : r.chance(0.3); break;
        case O_ITER_NEW: o.b = r.chance((prop == "C07" || prop == "C06") ? 0.4 : 0.1) ? 2 : r.chance(0.5); break;
        case O_COMPACT_RANGE: o.a = (int)r.below(3); break;
        case O_PROPERTY: o.a = (int)r.below(4); break;
        default: break;
      }
      p.ops.push_back(o);
    }
  // staged "gap" layout (a quarter of the C14/C06/C01-family runs): two level-0 files and two level-1 files that leave
  // a key gap between them; one thread compacts level 0 while another one writes a gap key with a value that fills the
  // write buffer, so that a memtable holding only gap keys is flushed in the middle of that compaction
  if ((prop == "C14" || prop == "C06" || prop == "C07" || prop == "C08") && nsingle >= 4 && r.chance(prop == "C14" ? 0.5 : 0.2)) {
    p.seti("stage_gap", 1);
    p.seti("prefill", 0); p.seti("l0_files", 0);
    p.cfg.wbs = 65536;
    int lo = 0, hi = nsingle - 1, gap = (int)r.range(1, nsingle - 2);
    p.seti("gap_lo", lo); p.seti("gap_hi", hi);
    std::vector<Op> front;
    { Op o; o.tid = 0; o.kind = O_COMPACT_RANGE; o.a = 0; front.push_back(o); }
    { Op o; o.tid = 1 % nthreads; o.kind = O_PUT; o.key = "c" + std::to_string(gap); o.tag = tag++; o.len = (uint32_t)r.range(66000, 80000); o.fill = 1; front.push_back(o); }
    { Op o; o.tid = 1 % nthreads; o.kind = O_PUT; o.key = "c" + std::to_string(gap); o.tag = tag++; o.len = 20; front.push_back(o); }
    { Op o; o.tid = 1 % nthreads; o.kind = O_SNAP; o.b = 0; front.push_back(o); }
    p.ops.insert(p.ops.begin(), front.begin(), front.end());
  }
  if (g_light && p.ops.size() > 400) p.ops.resize(400);
  p.sc.max_steps = 30000000ULL;
  return p;
}

void exec_conc(const Plan &p, RunOut *out) {
  begin_run(p, out);
  {
    Conc C; g_c = &C; C.p = &p;
    int nthreads = (int)p.geti("threads", 2);
    int nsingle = (int)p.geti("nsingle", 2), ngroups = (int)p.geti("ngroups", 1), gsize = (int)p.geti("gsize", 2);
    for (int i = 0; i < nsingle; i++) C.keys.push_back("c" + std::to_string(i));
    for (int g = 0; g < ngroups; g++) for (int q = 0; q < gsize; q++) C.keys.push_back("g" + std::to_string(g) + "/" + std::to_string(q));
    std::sort(C.keys.begin(), C.keys.end());
    C.per_thread.resize(nthreads); C.hist.resize(nthreads);
    for (size_t i = 0; i < p.ops.size(); i++) C.per_thread[p.ops[i].tid % nthreads].push_back((int)i);
    DbOptions opt; opt.set(p.cfg, true);
    string dir = "/sim/db";
    int rc = ldb_open(dir.c_str(), &opt.o, &C.db);
    if (rc != LDB_OK) violation("C08", "open_failed", "open failed: %s", rcname(rc));
    else {
      // prefill (happens-before everything): pad keys outside the checked key space
      std::vector<HOp> prefill, finals;
      long brink = p.geti("prefill", 0), l0 = p.geti("l0_files", 0);
      uint64_t ptag = 1;
      for (long f = 0; f < l0 && !failed(); f++) {
        Upd u; u.key = "zpad/" + std::to_string(f % 3); u.tag = ptag++; u.len = 64;
        db_write(C.db, {u}, 0);
        ldb_test_compact_memtable(C.db);
      }
      if (p.geti("stage_gap", 0)) {
        // pad key spanning the whole key space goes to a deep level; then each anchor key is flushed twice, which leaves
        // one file per anchor in level 1 and one in level 0 (the second flush overlaps the first)
        string klo = "c" + std::to_string(p.geti("gap_lo", 0)), khi = "c" + std::to_string(p.geti("gap_hi", 3));
        auto putflush = [&](std::vector<string> ks) {
          std::vector<Upd> ups; for (auto &k : ks) { Upd u; u.key = k; u.tag = ptag++; u.len = 40; ups.push_back(u); }
          HOp h; h.tid = 0; h.kind = O_WRITE; h.ups = ups; h.inv = sim::step(); h.rc = db_write(C.db, ups, 0); h.ret = sim::step();
          prefill.push_back(h); // part of the history: these writes happen before every thread starts
          ldb_test_compact_memtable(C.db);
        };
        putflush({"b-pad", "zpad/0"});
        for (int rep = 0; rep < 2; rep++) { putflush({klo}); putflush({khi}); }
        sim::drain();
        probe("staged_gap_layouts");
      }
      for (long b = 0; b < brink;) { Upd u; u.key = "zpad/" + std::to_string(ptag % 7); u.tag = ptag++; u.len = 3000; db_write(C.db, {u}, 0); b += 3100; }
      std::vector<int> tids;
      uint64_t sw0 = sim::stats().switches;
      for (int t = 1; t < nthreads; t++) tids.push_back(sim::spawn(conc_thread, (void *)(intptr_t)t));
      conc_thread((void *)(intptr_t)0);
      for (int t : tids) sim::join(t);
      uint64_t sw1 = sim::stats().switches;
      if (!failed()) {
        // final state: one read per key after everything has returned
        for (auto &k : C.keys) { HOp h; h.tid = 0; h.kind = O_GET; h.key = k; h.inv = sim::step(); int rc2 = db_get(C.db, k, &h.val, nullptr, 1, 1); h.ret = sim::step(); h.found = rc2 == LDB_OK; finals.push_back(h); }
        // order the final reads strictly after the history
        judge(C, prefill, finals);
      }
      // C14 under concurrency: once every caller has returned and the worker is idle, the layout must be well-formed
      if (!failed()) {
        sim::drain();
        std::vector<SstFile> files;
        if (parse_sstables(db_sstables(C.db), &files)) { KeyCmp kc; check_level_structure(dir, files, kc, "after a concurrent history"); count("structure_checks"); }
      }
      // close while background work may be scheduled or mid-way (callers have returned)
      // C03: the directory as a process kill would leave it right now, and the cleanly closed one, must both
      // reopen to exactly the final state the callers observed
      bool persist = !failed() && !finals.empty() && (p.seed % 3 == 0);
      if (persist) { sim::NoPreempt np; simfs::copy_tree(dir, "/sim/dbk"); }
      ldb_close(C.db); C.db = nullptr;
      if (persist) {
        sim::drain();
        const char *dirs[2] = {dir.c_str(), "/sim/dbk"};
        for (int d = 0; d < 2 && !failed(); d++) {
          sim::budget_reset();
          ldb_t *db2 = nullptr;
          int orc = ldb_open(dirs[d], &opt.o, &db2);
          if (orc != LDB_OK) { violation("C05", "reopen_failed", "reopen of %s after a concurrent history failed: %s", d ? "the kill image" : "the closed database", rcname(orc)); break; }
          for (auto &h : finals) {
            string v; int grc = db_get(db2, h.key, &v, nullptr, 1, 1);
            bool found = grc == LDB_OK;
            if ((grc != LDB_OK && grc != LDB_NOTFOUND) || found != h.found || (found && v != h.val))
              violation("C03", "lost_after_history", "%s: get(%s) after reopen = %s %s, callers last saw %s %s", d ? "kill image" : "closed database",
                        printable(h.key).c_str(), rcname(grc), printable(v).c_str(), h.found ? "value" : "NOTFOUND", printable(h.val).c_str());
          }
          count("reopen_after_history_checks");
          ldb_close(db2);
          sim::drain();
        }
      }
      size_t nops = 0; for (auto &h : C.hist) nops += h.size();
      count("history_ops", nops);
      out->nontrivial = out->probes.count("overlapping_operations") && sw1 - sw0 >= 2;
    }
    g_c = nullptr;
  }
  end_run(out);
}
