// Deterministic scheduler.  This translation unit is NEVER compiled with
// -fsanitize=thread: the hand-off between threads (raw futex + own atomics) must
// stay invisible to TSan, so that TSan only sees lcdb's own synchronisation.
#ifndef _GNU_SOURCE
#define _GNU_SOURCE 1
#endif
#include "sched.h"
#include "harness_scope.h"
#include "rng.h"
#include <errno.h>
#include <linux/futex.h>
#include <map>
#include <pthread.h>
#include <stdio.h>
#include <stdlib.h>
#include <string.h>
#include <sys/syscall.h>
#include <unistd.h>
#include <vector>

extern "C" {
int __real_pthread_mutex_init(pthread_mutex_t *, const pthread_mutexattr_t *);
int __real_pthread_mutex_destroy(pthread_mutex_t *);
int __real_pthread_mutex_lock(pthread_mutex_t *);
int __real_pthread_mutex_unlock(pthread_mutex_t *);
int __real_pthread_cond_init(pthread_cond_t *, const pthread_condattr_t *);
int __real_pthread_cond_destroy(pthread_cond_t *);
int __real_pthread_create(pthread_t *, const pthread_attr_t *, void *(*)(void *), void *);
int __real_pthread_join(pthread_t, void **);
int __real_pthread_detach(pthread_t);
}

extern "C" {
void __tsan_ignore_thread_begin(void) __attribute__((weak));
void __tsan_ignore_thread_end(void) __attribute__((weak));
}

namespace sim {
static __thread int t_hdepth = 0;
void harness_enter() { if (t_hdepth++ == 0 && __tsan_ignore_thread_begin) __tsan_ignore_thread_begin(); }
void harness_leave() { if (--t_hdepth == 0 && __tsan_ignore_thread_end) __tsan_ignore_thread_end(); }
int harness_suspend() { int d = t_hdepth; if (d > 0) { t_hdepth = 0; if (__tsan_ignore_thread_end) __tsan_ignore_thread_end(); } return d; }
void harness_resume(int d) { if (d > 0) { t_hdepth = d; if (__tsan_ignore_thread_begin) __tsan_ignore_thread_begin(); } }

namespace {

enum State { RUNNABLE, BLOCKED_MUTEX, BLOCKED_COND, BLOCKED_JOIN, DRAINING, FINISHED };
static const char *state_name[] = {"runnable", "blocked-mutex", "blocked-cond", "blocked-join", "draining", "finished"};

struct SimThread {
  int tid = 0;
  State st = RUNNABLE;
  int go = 0;
  bool is_bg = false;
  bool joined = false;
  const void *wait_obj = nullptr;
  int join_target = -1;
  uint64_t prio = 0;
  int no_preempt = 0;
  pthread_t real;
  void *(*pfn)(void *) = nullptr;
  void *parg = nullptr;
  void (*cfn)(void *) = nullptr;
};

static __thread SimThread *t_self = nullptr;
static std::vector<SimThread *> g_threads;
static std::map<const void *, int> g_mutex_owner;           // absent / -1 = free
static std::map<const void *, std::vector<int>> g_cond_waiters;
static SchedConfig g_cfg;
static SchedStats g_stats;
static Rng g_rng(1);
static bool g_active = false;
static int g_live = 0;                 // unfinished threads
static int g_cond_blocked = 0;
static uint64_t g_clock = 1700000000ULL * 1000000ULL;
static int g_burst_left = 0;
static uint64_t g_budget_base = 0;
static bool g_trace_on = false;
static std::vector<Switch> g_trace;
static std::vector<uint64_t> g_pct_points;
static fatal_fn g_fatal = nullptr;

static void futex_wait(int *addr, int val) { syscall(SYS_futex, addr, FUTEX_WAIT_PRIVATE, val, NULL, NULL, 0); }
static void futex_wake(int *addr) { syscall(SYS_futex, addr, FUTEX_WAKE_PRIVATE, 1, NULL, NULL, 0); }

static void park(SimThread *t) {
  while (__atomic_load_n(&t->go, __ATOMIC_SEQ_CST) == 0) futex_wait(&t->go, 0);
  __atomic_store_n(&t->go, 0, __ATOMIC_SEQ_CST);
}
static void wake(SimThread *t) {
  __atomic_store_n(&t->go, 1, __ATOMIC_SEQ_CST);
  futex_wake(&t->go);
}

static inline void hmix(uint64_t a, uint64_t b) { g_stats.hash = (g_stats.hash ^ (a * 0x9E3779B97F4A7C15ULL + b)) * 0x100000001B3ULL; }

static void fatal(const char *cls, const std::string &msg) {
  std::string rep = msg + "\n" + dump_threads();
  if (g_fatal) g_fatal(cls, rep);
  fprintf(stderr, "sim fatal [%s]: %s\n", cls, rep.c_str());
  _exit(70);
}

// Choose the thread to run next.  self_ok: the calling thread may continue.
static SimThread *choose(SimThread *self, bool self_ok) {
  SimThread *run[64];
  int n = 0;
  for (SimThread *t : g_threads)
    if (t->st == RUNNABLE && (t != self || self_ok) && n < 64) run[n++] = t;
  if (n == 0) return nullptr;
  if (n == 1) return run[0];
  if (self_ok && self->no_preempt > 0) return self;
  auto random_other = [&](SimThread **set, int m) -> SimThread * {
    // uniformly among set minus self (if that is empty, self)
    int cnt = 0;
    for (int i = 0; i < m; i++) if (set[i] != self) cnt++;
    if (cnt == 0) return self;
    int k = (int)g_rng.below(cnt);
    for (int i = 0; i < m; i++) if (set[i] != self && k-- == 0) return set[i];
    return self;
  };
  auto random_rule = [&](SimThread **set, int m) -> SimThread * {
    bool self_in = false;
    for (int i = 0; i < m; i++) if (set[i] == self) self_in = true;
    if (self_ok && self_in && !g_rng.chance(g_cfg.p_switch)) return self;
    if (!self_in) return set[g_rng.below(m)];
    return random_other(set, m);
  };
  switch (g_cfg.policy) {
    default:
    case P_RANDOM: return random_rule(run, n);
    case P_PCT: {
      SimThread *best = run[0];
      for (int i = 1; i < n; i++) if (run[i]->prio > best->prio) best = run[i];
      return best;
    }
    case P_BG_STARVE: {
      SimThread *callers[64]; int m = 0;
      for (int i = 0; i < n; i++) if (!run[i]->is_bg) callers[m++] = run[i];
      if (m > 0) return m == 1 ? callers[0] : random_rule(callers, m);
      return run[0];
    }
    case P_BG_EAGER: {
      for (int i = 0; i < n; i++) if (run[i]->is_bg) return (self_ok && self->is_bg) ? self : run[i];
      return random_rule(run, n);
    }
    case P_BURST: {
      if (self_ok && g_burst_left > 0) { g_burst_left--; return self; }
      g_burst_left = g_cfg.burst > 0 ? (int)g_rng.range(1, (uint64_t)g_cfg.burst) : 1;
      return random_other(run, n);
    }
  }
}

static void switch_to(SimThread *self, SimThread *next, int kind) {
  g_stats.switches++;
  if (g_trace_on && g_trace.size() < 200000) g_trace.push_back({g_stats.steps, kind, self->tid, next->tid});
  if (kind == Y_ATOMIC) g_stats.atomic_switches++;
  hmix(0xABCD, (uint64_t)next->tid);
  wake(next);
  park(self);
}

static SimThread *pick_or_drainer(SimThread *self) {
  SimThread *next = choose(self, false);
  if (next) return next;
  for (SimThread *t : g_threads)
    if (t->st == DRAINING && t != self) { t->st = RUNNABLE; return t; }
  return nullptr;
}

// The calling thread cannot continue (state already set).  Hand the token over.
static void block(SimThread *self) {
  SimThread *next = pick_or_drainer(self);
  if (!next) fatal("deadlock", "unfinished threads exist and none is runnable");
  g_stats.switches++;
  if (g_trace_on && g_trace.size() < 200000) g_trace.push_back({g_stats.steps, -(int)self->st, self->tid, next->tid});
  hmix(0xB10C, (uint64_t)next->tid);
  wake(next);
  park(self);
}

static void maybe_spurious() {
  if (!g_cfg.spurious || g_cond_blocked == 0) return;
  if (!g_rng.chance(0.003)) return;
  std::vector<SimThread *> c;
  for (SimThread *t : g_threads) if (t->st == BLOCKED_COND) c.push_back(t);
  if (c.empty()) return;
  SimThread *t = c[g_rng.below(c.size())];
  auto &w = g_cond_waiters[t->wait_obj];
  for (size_t i = 0; i < w.size(); i++) if (w[i] == t->tid) { w.erase(w.begin() + i); break; }
  t->st = RUNNABLE; g_cond_blocked--;
  g_stats.spurious++;
  hmix(0x5B, (uint64_t)t->tid);
}

static void thread_finish(SimThread *self) {
  g_stats.steps++;
  hmix(Y_EXIT, (uint64_t)self->tid);
  self->st = FINISHED;
  g_live--;
  for (SimThread *t : g_threads)
    if (t->st == BLOCKED_JOIN && t->join_target == self->tid) t->st = RUNNABLE;
  SimThread *next = pick_or_drainer(self);
  if (!next) fatal("deadlock", "thread exit leaves unfinished threads with none runnable");
  g_stats.switches++;
  hmix(0xE817, (uint64_t)next->tid);
  wake(next);
}

static void *trampoline(void *p) {
  SimThread *t = (SimThread *)p;
  t_self = t;
  park(t);
  void *r = nullptr;
  if (t->cfn) { harness_enter(); t->cfn(t->parg); harness_leave(); } else r = t->pfn(t->parg);
  harness_enter();
  thread_finish(t);
  harness_leave();
  return r;
}

static void sim_mutex_acquire(SimThread *self, pthread_mutex_t *m) {
  for (;;) {
    auto it = g_mutex_owner.find(m);
    if (it == g_mutex_owner.end()) { g_mutex_owner[m] = self->tid; break; }
    if (it->second < 0) { it->second = self->tid; break; }
    if (it->second == self->tid) fatal("deadlock", "thread re-locks a mutex it owns");
    self->st = BLOCKED_MUTEX; self->wait_obj = m;
    g_stats.mutex_blocks++;
    block(self);
  }
}

static void sim_mutex_release(SimThread *self, pthread_mutex_t *m) {
  auto it = g_mutex_owner.find(m);
  if (it == g_mutex_owner.end() || it->second != self->tid) fatal("misuse", "unlock of a mutex not owned by the caller");
  it->second = -1;
  for (SimThread *t : g_threads)
    if (t->st == BLOCKED_MUTEX && t->wait_obj == m) t->st = RUNNABLE;
}

} // namespace

void set_fatal_handler(fatal_fn f) { g_fatal = f; }
void trace_enable(bool on) { g_trace_on = on; g_trace.clear(); }
const std::vector<Switch> &trace() { return g_trace; }

std::string dump_threads() {
  std::string s;
  char b[256];
  for (SimThread *t : g_threads) {
    int owner = -1;
    if (t->st == BLOCKED_MUTEX) { auto it = g_mutex_owner.find(t->wait_obj); if (it != g_mutex_owner.end()) owner = it->second; }
    snprintf(b, sizeof b, "  thread %d (%s): %s obj=%p owner=%d join=%d\n", t->tid, t->is_bg ? "bg" : "caller", state_name[t->st],
             (t->st == BLOCKED_MUTEX || t->st == BLOCKED_COND) ? t->wait_obj : nullptr, owner, t->st == BLOCKED_JOIN ? t->join_target : -1);
    s += b;
  }
  snprintf(b, sizeof b, "  steps=%llu switches=%llu", (unsigned long long)g_stats.steps, (unsigned long long)g_stats.switches);
  s += b;
  return s;
}

void init() {
  if (t_self) return;
  SimThread *t = new SimThread;
  t->tid = 0; t->real = pthread_self();
  g_threads.push_back(t);
  t_self = t;
  g_live = 1;
  g_active = true;
  harness_enter(); // thread 0 is harness code except inside lcdb API calls
}

void reset(const SchedConfig &cfg) {
  SimThread *self = t_self;
  if (!self || self->tid != 0) fatal("misuse", "reset from a thread other than 0");
  for (size_t i = 1; i < g_threads.size(); i++) {
    if (g_threads[i]->st != FINISHED) fatal("misuse", "reset while threads are unfinished");
    delete g_threads[i];
  }
  g_threads.resize(1);
  for (auto &kv : g_mutex_owner) if (kv.second >= 0) fatal("misuse", "reset while a mutex is owned");
  // forget mutexes that were never destroyed explicitly except static ones (harmless to keep)
  g_cond_waiters.clear();
  g_cond_blocked = 0;
  g_cfg = cfg;
  g_stats = SchedStats();
  g_rng = Rng(cfg.seed ^ 0x5C4ED);
  g_live = 1;
  g_burst_left = 0;
  g_budget_base = 0;
  g_clock = 1700000000ULL * 1000000ULL;
  self->no_preempt = 0;
  self->prio = 1000 + g_rng.below(1000);
  g_pct_points.clear();
  if (cfg.policy == P_PCT)
    for (int i = 0; i < cfg.pct_depth; i++) g_pct_points.push_back(g_rng.below(cfg.pct_horizon ? cfg.pct_horizon : 1));
}

const SchedStats &stats() { return g_stats; }
void budget_reset() { g_budget_base = g_stats.steps; }
uint64_t step() { return g_stats.steps; }
uint64_t clock_usec() { return g_clock; }
void clock_jump(int64_t d) { g_clock = (uint64_t)((int64_t)g_clock + d); }
int self_tid() { return t_self ? t_self->tid : -1; }
bool self_is_bg() { return t_self && t_self->is_bg; }
int live_threads() { return g_live - 1; }
void no_preempt_begin() { if (t_self) t_self->no_preempt++; }
void no_preempt_end() { if (t_self) t_self->no_preempt--; }

void yield_point(int kind, const void *obj) {
  (void)obj;
  SimThread *self = t_self;
  if (!self || !g_active) return;
  uint64_t s = ++g_stats.steps;
  g_stats.by_kind[kind]++;
  g_clock += 1 + (s & 7);
  hmix((uint64_t)kind, (uint64_t)self->tid);
  if (s - g_budget_base > g_cfg.max_steps) fatal("step-budget", "run exceeded its scheduler step budget");
  if (g_live == 1) return;
  if (kind == Y_ATOMIC && !g_cfg.atomics_yield) return;
  if (!g_pct_points.empty())
    for (size_t i = 0; i < g_pct_points.size(); i++)
      if (g_pct_points[i] == s) self->prio = i; // drop below every initial priority
  maybe_spurious();
  SimThread *next = choose(self, true);
  if (next && next != self) switch_to(self, next, kind);
}

int spawn(void (*fn)(void *), void *arg) {
  SimThread *self = t_self;
  SimThread *t = new SimThread;
  t->tid = (int)g_threads.size();
  t->is_bg = false;
  t->cfn = fn; t->parg = arg;
  t->prio = 1000 + g_rng.below(1000);
  g_threads.push_back(t);
  g_live++;
  g_stats.threads_created++;
  pthread_attr_t a; pthread_attr_init(&a); pthread_attr_setstacksize(&a, 1 << 20);
  if (__real_pthread_create(&t->real, &a, trampoline, t) != 0) fatal("misuse", "pthread_create failed");
  pthread_attr_destroy(&a);
  (void)self;
  return t->tid;
}

void join(int tid) {
  SimThread *self = t_self;
  SimThread *t = g_threads[tid];
  yield_point(Y_JOIN, nullptr);
  while (t->st != FINISHED) { self->st = BLOCKED_JOIN; self->join_target = tid; block(self); }
  if (!t->joined && !t->is_bg) { __real_pthread_join(t->real, nullptr); t->joined = true; }
}

void drain() {
  SimThread *self = t_self;
  for (;;) {
    SimThread *next = choose(self, false);
    if (!next) return;
    self->st = DRAINING;
    g_stats.switches++;
    hmix(0xD7A1, (uint64_t)next->tid);
    wake(next);
    park(self);
    self->st = RUNNABLE;
  }
}

} // namespace sim

using namespace sim;

extern "C" {

void ldb_verif_atomic_point(const volatile void *addr, int kind) {
  sim::HarnessScope hs_;
  (void)kind;
  if (t_self) yield_point(Y_ATOMIC, (const void *)addr);
}

int __wrap_pthread_mutex_init(pthread_mutex_t *m, const pthread_mutexattr_t *a) {
  sim::HarnessScope hs_;
  if (t_self) g_mutex_owner[m] = -1;
  return __real_pthread_mutex_init(m, a);
}

int __wrap_pthread_mutex_destroy(pthread_mutex_t *m) {
  sim::HarnessScope hs_;
  if (t_self) {
    auto it = g_mutex_owner.find(m);
    if (it != g_mutex_owner.end()) {
      if (it->second >= 0) fatal("misuse", "destroy of a locked mutex");
      g_mutex_owner.erase(it);
    }
  }
  return __real_pthread_mutex_destroy(m);
}

int __wrap_pthread_mutex_lock(pthread_mutex_t *m) {
  sim::HarnessScope hs_;
  SimThread *self = t_self;
  if (!self) return __real_pthread_mutex_lock(m);
  yield_point(Y_MUTEX_LOCK, m);
  sim_mutex_acquire(self, m);
  return __real_pthread_mutex_lock(m);
}

int __wrap_pthread_mutex_unlock(pthread_mutex_t *m) {
  sim::HarnessScope hs_;
  SimThread *self = t_self;
  if (!self) return __real_pthread_mutex_unlock(m);
  sim_mutex_release(self, m);
  int r = __real_pthread_mutex_unlock(m);
  yield_point(Y_MUTEX_UNLOCK, m);
  return r;
}

int __wrap_pthread_cond_init(pthread_cond_t *c, const pthread_condattr_t *a) {
  sim::HarnessScope hs_; return __real_pthread_cond_init(c, a); }

int __wrap_pthread_cond_destroy(pthread_cond_t *c) {
  sim::HarnessScope hs_;
  if (t_self) {
    auto it = g_cond_waiters.find(c);
    if (it != g_cond_waiters.end()) {
      if (!it->second.empty()) fatal("misuse", "destroy of a condition variable with waiters");
      g_cond_waiters.erase(it);
    }
  }
  return __real_pthread_cond_destroy(c);
}

int __wrap_pthread_cond_wait(pthread_cond_t *c, pthread_mutex_t *m) {
  sim::HarnessScope hs_;
  SimThread *self = t_self;
  if (!self) { fprintf(stderr, "cond_wait outside simulation\n"); abort(); }
  g_stats.steps++; g_stats.by_kind[Y_COND_WAIT]++; g_stats.cond_waits++;
  hmix(Y_COND_WAIT, (uint64_t)self->tid);
  sim_mutex_release(self, m);
  __real_pthread_mutex_unlock(m);
  g_cond_waiters[c].push_back(self->tid);
  self->st = BLOCKED_COND; self->wait_obj = c; g_cond_blocked++;
  block(self);
  sim_mutex_acquire(self, m);
  __real_pthread_mutex_lock(m);
  return 0;
}

static void wake_cond_waiter(const void *c, bool all) {
  auto it = g_cond_waiters.find(c);
  if (it == g_cond_waiters.end()) return;
  auto &w = it->second;
  while (!w.empty()) {
    size_t i = (g_cfg.nonfifo_signal && w.size() > 1) ? (size_t)g_rng.below(w.size()) : 0;
    SimThread *t = g_threads[w[i]];
    w.erase(w.begin() + i);
    t->st = RUNNABLE; g_cond_blocked--;
    if (!all) break;
  }
}

int __wrap_pthread_cond_signal(pthread_cond_t *c) {
  sim::HarnessScope hs_;
  if (!t_self) return 0;
  wake_cond_waiter(c, false);
  yield_point(Y_COND_SIGNAL, c);
  return 0;
}

int __wrap_pthread_cond_broadcast(pthread_cond_t *c) {
  sim::HarnessScope hs_;
  if (!t_self) return 0;
  wake_cond_waiter(c, true);
  yield_point(Y_COND_BROADCAST, c);
  return 0;
}

int __wrap_pthread_create(pthread_t *th, const pthread_attr_t *attr, void *(*fn)(void *), void *arg) {
  sim::HarnessScope hs_;
  SimThread *self = t_self;
  if (!self) return __real_pthread_create(th, attr, fn, arg);
  SimThread *t = new SimThread;
  t->tid = (int)g_threads.size();
  t->is_bg = true;
  t->pfn = fn; t->parg = arg;
  t->prio = 1000 + g_rng.below(1000);
  g_threads.push_back(t);
  g_live++;
  g_stats.threads_created++;
  int r = __real_pthread_create(th, attr, trampoline, t);
  if (r != 0) fatal("misuse", "pthread_create failed");
  t->real = *th;
  if (g_cfg.create_order == 1 && self->no_preempt == 0) {
    g_stats.steps++; hmix(Y_CREATE, (uint64_t)self->tid);
    switch_to(self, t, Y_CREATE);
  } else if (g_cfg.create_order == 0) {
    yield_point(Y_CREATE, nullptr);
  } else {
    g_stats.steps++; hmix(Y_CREATE, (uint64_t)self->tid);
  }
  return 0;
}

int __wrap_pthread_detach(pthread_t th) {
  sim::HarnessScope hs_; return __real_pthread_detach(th); }

int __wrap_pthread_join(pthread_t th, void **ret) {
  sim::HarnessScope hs_;
  SimThread *self = t_self;
  if (!self) return __real_pthread_join(th, ret);
  for (SimThread *t : g_threads)
    if (t->tid != 0 && pthread_equal(t->real, th)) {
      yield_point(Y_JOIN, nullptr);
      while (t->st != FINISHED) { self->st = BLOCKED_JOIN; self->join_target = t->tid; block(self); }
      t->joined = true;
      break;
    }
  return __real_pthread_join(th, ret);
}

} // extern "C"
