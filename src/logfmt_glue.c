/* Thin C glue over lcdb's internal log writer/reader and file layer (the real
 * code under test), so that the C++ harness need not include internal headers. */
#include <stddef.h>
#include <stdint.h>
#include <stdio.h>
#include <string.h>
#include "util/buffer.h"
#include "util/env.h"
#include "util/slice.h"
#include "util/status.h"
#include "log_reader.h"
#include "log_writer.h"

/* Appends n records to path. mode 0: truncate/create, 1: append (log reuse: the
 * writer is told the current file size, exactly like ldb_recover_log_file does). */
typedef void lf_after_cb(void *arg, size_t index);

int
lf_write(const char *path, int mode, const unsigned char **recs,
         const size_t *lens, size_t n, int sync_each,
         lf_after_cb *after, void *after_arg) {
  ldb_wfile_t *file = NULL;
  ldb_writer_t *lw;
  uint64_t size = 0;
  size_t i;
  int rc;

  if (mode == 1) {
    if (ldb_file_size(path, &size) != LDB_OK)
      size = 0;
    rc = ldb_appendfile_create(path, &file);
  } else {
    rc = ldb_truncfile_create(path, &file);
  }

  if (rc != LDB_OK)
    return rc;

  lw = ldb_writer_create(file, size);

  for (i = 0; i < n && rc == LDB_OK; i++) {
    ldb_slice_t s = ldb_slice(recs[i], lens[i]);

    rc = ldb_writer_add_record(lw, &s);

    /* the caller looks at what the operating system has at this point */
    if (rc == LDB_OK && after != NULL)
      after(after_arg, i);

    if (rc == LDB_OK && sync_each)
      rc = ldb_wfile_sync(file);
  }

  if (rc == LDB_OK)
    rc = ldb_wfile_close(file);

  ldb_writer_destroy(lw);
  ldb_wfile_destroy(file);

  return rc;
}

typedef void lf_record_cb(void *arg, const unsigned char *data, size_t len);
typedef void lf_report_cb(void *arg, size_t bytes, int status);

struct lf_state {
  lf_report_cb *report;
  void *arg;
};

static struct lf_state *lf_cur;

static void
lf_corruption(ldb_reporter_t *reporter, size_t bytes, int status) {
  (void)reporter;
  lf_cur->report(lf_cur->arg, bytes, status);
}

int
lf_read(const char *path, uint64_t initial_offset, lf_record_cb *on_record,
        lf_report_cb *on_report, void *arg) {
  ldb_reporter_t reporter;
  struct lf_state st;
  ldb_rfile_t *file = NULL;
  ldb_reader_t reader;
  ldb_slice_t record;
  ldb_buffer_t scratch;
  int status = LDB_OK;
  int rc = ldb_seqfile_create(path, &file);

  if (rc != LDB_OK)
    return rc;

  st.report = on_report;
  st.arg = arg;
  lf_cur = &st;

  memset(&reporter, 0, sizeof(reporter));
  reporter.status = &status;
  reporter.io_status = &status;
  reporter.corruption = lf_corruption;

  ldb_reader_init(&reader, file, &reporter, 1, initial_offset);
  ldb_slice_init(&record);
  ldb_buffer_init(&scratch);

  while (ldb_reader_read_record(&reader, &record, &scratch))
    on_record(arg, record.data, record.size);

  ldb_buffer_clear(&scratch);
  ldb_reader_clear(&reader);
  ldb_rfile_destroy(file);

  return LDB_OK;
}
