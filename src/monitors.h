// Oracles shared by several modes: file-set monitor (C13), level structure
// (C14), independent MANIFEST replay (C17).
#pragma once
#include "lsim.h"

struct FileMonitor {
  std::set<uint64_t> ever_live;          // numbers that were named by a version / logs that received data
  std::map<uint64_t, int> created;       // number -> class, within the current process incarnation
  string last_listing_text;
  std::map<uint64_t, size_t> mprog;      // MANIFEST inode -> bytes written so far (journal view)
  bool mprog_init = false;
  void note_live(const std::vector<SstFile> &files);
  // examine journal entries [*pos, end) ; pins: table numbers certainly referenced by live iterators
  void scan(const simfs::Journal &j, size_t *pos, const std::vector<const std::set<uint64_t> *> &pins, size_t end = (size_t)-1);
  void after_crash(const string &dir);   // new incarnation: forget "created", keep ever_live
};

void monitors_reset();
void check_level_structure(const string &dir, const std::vector<SstFile> &files, const KeyCmp &kc, const char *why);
void check_no_leaks(const string &dir, const std::vector<SstFile> &files, const char *why);
// Decodes CURRENT + MANIFEST independently and compares with the reported layout.
// Returns false if the metadata could not be decoded at all.
bool check_manifest_replay(const string &dir, const std::vector<SstFile> &files, int cmp_type, const char *why, ref::VersionState *out = nullptr);
// Decode only (no comparison); err gets a description on failure.
bool decode_manifest(const string &dir, ref::VersionState *st, string *err, string *manifest_name = nullptr);
// internal-key order under a user comparator
int ikey_compare(const KeyCmp &kc, const ref::IKey &a, const ref::IKey &b);
