// model-mode: one caller thread + lcdb's background worker under the scheduler.
// Oracles: sorted-map model (C01), frozen snapshot copies (C06), model cursor
// (C07), file-set monitor (C13), level-structure invariants against an
// independent table decoder (C14), independent MANIFEST replay (C17).
#include "lsim.h"
#include "monitors.h"
#include <algorithm>
#include <stdio.h>
#include <string.h>

namespace {

enum { NSNAP = 6, NITER = 4 };

struct Snap { const ldb_snapshot_t *s = nullptr; Model m; };
struct It {
  ldb_iter_t *it = nullptr; Model view; Model::iterator pos; bool valid = false; int snapslot = -1;
  std::set<uint64_t> pinned; size_t jstart = 0;
};

struct Ctx {
  const Plan &p;
  Config cfg;                    // options in force; a reopen may change every one of them except the comparator
  DbOptions opt;
  ldb_t *db = nullptr;
  string dir;
  int gen = 0;
  KeyCmp kc;
  Model model;
  std::vector<string> keys;
  Snap snaps[NSNAP];
  It its[NITER];
  simfs::Journal journal;
  FileMonitor mon;
  size_t jscan = 0;
  string open_listing;
  Rng aux;
  explicit Ctx(const Plan &pl) : p(pl), cfg(pl.cfg), aux(pl.seed ^ 0xA0C5) { kc.type = pl.cfg.cmp; model = Model(kc); }
};

void model_put(Model &m, const string &k, const string &v) { m.erase(k); m.emplace(k, v); }

int live_iters(Ctx &c) { int n = 0; for (auto &i : c.its) if (i.it) n++; return n; }

void check_get(Ctx &c, const string &k, const Model &m, const ldb_snapshot_t *s, const char *prop, const char *what) {
  string v;
  int rc = db_get(c.db, k, &v, s, c.cfg.verify, c.cfg.fillc);
  count("get_checks");
  auto f = m.find(k);
  if (f == m.end()) {
    if (rc != LDB_NOTFOUND) violation(prop, "get_mismatch", "%s get(%s): expected NOTFOUND, got %s%s", what, printable(k).c_str(), rcname(rc), rc == 0 ? (" value=" + printable(v)).c_str() : "");
  } else if (rc != LDB_OK) {
    violation(prop, "get_mismatch", "%s get(%s): expected value %s, got %s", what, printable(k).c_str(), printable(f->second).c_str(), rcname(rc));
  } else if (v != f->second) {
    violation(prop, "get_mismatch", "%s get(%s): expected %s, got %s", what, printable(k).c_str(), printable(f->second).c_str(), printable(v).c_str());
  }
  ldb_readopt_t ro = *ldb_readopt_default; ro.snapshot = s; ro.verify_checksums = c.cfg.verify; ro.fill_cache = c.cfg.fillc;
  ldb_slice_t kk = S(k);
  int hrc = ldb_has(c.db, &kk, &ro);
  if ((hrc == LDB_OK) != (f != m.end()) || (hrc != LDB_OK && hrc != LDB_NOTFOUND))
    violation(prop, "has_mismatch", "%s has(%s) = %s but key is %s in the model", what, printable(k).c_str(), rcname(hrc), f != m.end() ? "present" : "absent");
}

void check_scan(Ctx &c, const Model &m, const ldb_snapshot_t *s, const char *prop, const char *what) {
  std::vector<std::pair<string, string>> fw, bw;
  int rc = db_scan(c.db, &fw, s, c.cfg.verify);
  count("scan_checks");
  if (rc != LDB_OK) { violation(prop, "scan_status", "%s forward scan status %s", what, rcname(rc)); return; }
  if (fw.size() != m.size()) { violation(prop, "scan_mismatch", "%s forward scan yields %zu entries, model has %zu", what, fw.size(), m.size()); return; }
  size_t i = 0;
  for (auto it = m.begin(); it != m.end(); ++it, ++i)
    if (fw[i].first != it->first || fw[i].second != it->second) { violation(prop, "scan_mismatch", "%s forward scan entry %zu: got %s=%s expected %s=%s", what, i, printable(fw[i].first).c_str(), printable(fw[i].second).c_str(), printable(it->first).c_str(), printable(it->second).c_str()); return; }
  rc = db_scan_back(c.db, &bw, s, c.cfg.verify);
  if (rc != LDB_OK) { violation(prop, "scan_status", "%s backward scan status %s", what, rcname(rc)); return; }
  if (bw.size() != fw.size()) { violation(prop, "scan_mismatch", "%s backward scan yields %zu entries, forward %zu", what, bw.size(), fw.size()); return; }
  for (size_t k = 0; k < bw.size(); k++)
    if (bw[k] != fw[fw.size() - 1 - k]) { violation(prop, "scan_mismatch", "%s backward scan entry %zu differs from forward scan", what, k); return; }
}

void sweep(Ctx &c, const char *why) {
  // cost bound: after the first 40 full sweeps of a run, three out of four are replaced by a sampled check
  if (g_out->counts["sweeps"] >= 40 && c.aux.below(4) != 0) {
    for (int i = 0; i < 12 && !c.keys.empty() && !failed(); i++) {
      const string &k = c.keys[c.aux.below(c.keys.size())];
      check_get(c, k, c.model, nullptr, "C01", why);
      for (int sidx = 0; sidx < NSNAP && !failed(); sidx++) if (c.snaps[sidx].s && c.aux.below(2)) check_get(c, k, c.snaps[sidx].m, c.snaps[sidx].s, "C06", why);
    }
    count("sampled_sweeps");
    return;
  }
  for (auto &k : c.keys) { check_get(c, k, c.model, nullptr, "C01", why); if (failed()) return; }
  check_scan(c, c.model, nullptr, "C01", why);
  for (int i = 0; i < NSNAP && !failed(); i++)
    if (c.snaps[i].s) {
      for (auto &k : c.keys) { check_get(c, k, c.snaps[i].m, c.snaps[i].s, "C06", why); if (failed()) return; }
      check_scan(c, c.snaps[i].m, c.snaps[i].s, "C06", why);
    }
  count("sweeps");
}

void check_iter(Ctx &c, It &I, const char *what) {
  count("iter_checks");
  bool v = ldb_iter_valid(I.it) != 0;
  if (v != I.valid) { violation("C07", "iter_valid", "after %s: valid=%d, model says %d%s", what, (int)v, (int)I.valid, I.valid ? (" at " + printable(I.pos->first)).c_str() : ""); return; }
  if (v) {
    string k = str_of(ldb_iter_key(I.it)), val = str_of(ldb_iter_value(I.it));
    if (k != I.pos->first) { violation("C07", "iter_key", "after %s: key %s, model cursor at %s", what, printable(k).c_str(), printable(I.pos->first).c_str()); return; }
    if (val != I.pos->second) { violation("C07", "iter_value", "after %s: key %s has value %s, model %s", what, printable(k).c_str(), printable(val).c_str(), printable(I.pos->second).c_str()); return; }
  }
  int st = ldb_iter_status(I.it);
  if (st != LDB_OK) violation("C07", "iter_status", "after %s: iterator status %s", what, rcname(st));
}

// scan new journal entries for events the file-set monitor cares about
void scan_journal(Ctx &c) {
  std::vector<const std::set<uint64_t> *> pins;
  for (auto &I : c.its) if (I.it) pins.push_back(&I.pinned);
  c.mon.scan(c.journal, &c.jscan, pins);
  for (auto &f : simfs::failed_calls())
    if (f.call == simfs::C_OPEN && f.err == ENOENT && simfs::classify(f.path) == simfs::FC_TABLE)
      violation("C13", "table_enoent", "open of table %s failed with ENOENT: a needed file was removed", f.path.c_str());
  simfs::failed_calls().clear();
}

void structure_checks(Ctx &c, bool leak_check, const char *why) {
  // quiescent: background worker idle
  sim::drain();
  scan_journal(c);
  if (failed()) return;
  string text = db_sstables(c.db);
  std::vector<SstFile> files;
  if (!parse_sstables(text, &files)) { violation("C14", "sstables_parse", "cannot parse leveldb.sstables output at %s", why); return; }
  c.mon.note_live(files);
  check_level_structure(c.dir, files, c.kc, why);
  count("structure_checks");
  if (leak_check && live_iters(c) == 0) check_no_leaks(c.dir, files, why);
}

void open_db(Ctx &c, bool first) {
  c.opt.set(c.cfg, true);
  int rc;
  {
    sim::NoPreempt np;
    rc = ldb_open(c.dir.c_str(), &c.opt.o, &c.db);
    if (rc != LDB_OK) { violation("C01", "open_failed", "ldb_open(%s) failed: %s", c.dir.c_str(), rcname(rc)); c.db = nullptr; return; }
    scan_journal(c); // journal entries of the recovery itself, before its outputs are noted as live
    if (failed()) return;
    if (!first) {
      // C17: independent MANIFEST replay must reproduce the layout lcdb reports
      string text = db_sstables(c.db);
      c.open_listing = text;
      std::vector<SstFile> files;
      if (parse_sstables(text, &files)) { check_manifest_replay(c.dir, files, c.cfg.cmp, "reopen"); c.mon.note_live(files); }
      else violation("C14", "sstables_parse", "cannot parse leveldb.sstables output after reopen");
      count("manifest_replays");
    }
  }
}

void drop_handles(Ctx &c) {
  for (auto &I : c.its) if (I.it) { ldb_iter_destroy(I.it); I.it = nullptr; I.view.clear(); }
  for (auto &s : c.snaps) if (s.s) { ldb_release(c.db, s.s); s.s = nullptr; s.m.clear(); }
}

void do_op(Ctx &c, const Op &o, int idx) {
  simfs::set_current_op(idx);
  const Config &cfg = c.cfg;
  switch (o.kind) {
    case O_PUT: {
      string v = mkval(o.tag, o.len, o.fill);
      ldb_slice_t k = S(o.key), vv = S(v);
      ldb_writeopt_t wo; wo.sync = o.sync;
      int rc = ldb_put(c.db, &k, &vv, &wo);
      if (rc != LDB_OK) { violation("C01", "write_failed", "put failed: %s", rcname(rc)); return; }
      model_put(c.model, o.key, v);
      check_get(c, o.key, c.model, nullptr, "C01", "after put");
      break;
    }
    case O_DEL: {
      ldb_slice_t k = S(o.key);
      ldb_writeopt_t wo; wo.sync = o.sync;
      int rc = ldb_del(c.db, &k, &wo);
      if (rc != LDB_OK) { violation("C01", "write_failed", "del failed: %s", rcname(rc)); return; }
      c.model.erase(o.key);
      check_get(c, o.key, c.model, nullptr, "C01", "after del");
      break;
    }
    case O_WRITE: {
      int rc = o.a > 0 ? db_write_mode(c.db, o.ups, o.sync, o.a) : db_write(c.db, o.ups, o.sync);
      if (rc != LDB_OK) { violation("C01", "write_failed", "write failed: %s", rcname(rc)); return; }
      for (auto &u : o.ups) { if (u.del) c.model.erase(u.key); else model_put(c.model, u.key, mkval(u.tag, u.len, u.fill)); }
      if (!o.ups.empty()) check_get(c, o.ups[c.aux.below(o.ups.size())].key, c.model, nullptr, "C01", "after write");
      break;
    }
    case O_GET:
    case O_HAS: {
      int reps = o.b > 0 ? o.b : 1;
      if (o.a >= 0 && o.a < NSNAP && c.snaps[o.a].s) { check_get(c, o.key, c.snaps[o.a].m, c.snaps[o.a].s, "C06", "snapshot"); break; }
      if (reps > 1) sim::drain(); // no compaction pending: one that starts during the repeated reads was triggered by them
      long comp0 = (long)g_out->probes["log:Compacting "] + (long)g_out->probes["log:Moved #"];
      for (int i = 0; i < reps && !failed(); i++) check_get(c, o.key, c.model, nullptr, "C01", "read");
      if (reps > 1) { sim::drain(); if ((long)g_out->probes["log:Compacting "] + (long)g_out->probes["log:Moved #"] > comp0) probe("seek_triggered_compactions"); }
      break;
    }
    case O_SNAP:
      if (o.a >= 0 && o.a < NSNAP && !c.snaps[o.a].s) { c.snaps[o.a].s = ldb_snapshot(c.db); c.snaps[o.a].m = c.model; probe("snapshots_taken"); }
      break;
    case O_RELEASE:
      if (o.a >= 0 && o.a < NSNAP && c.snaps[o.a].s) {
        bool used = false;
        for (auto &I : c.its) if (I.it && I.snapslot == o.a) used = true;
        if (!used) { ldb_release(c.db, c.snaps[o.a].s); c.snaps[o.a].s = nullptr; c.snaps[o.a].m.clear(); }
      }
      break;
    case O_ITER_NEW:
      if (o.a >= 0 && o.a < NITER && !c.its[o.a].it) {
        It &I = c.its[o.a];
        ldb_readopt_t ro = *ldb_iteropt_default;
        ro.verify_checksums = cfg.verify; ro.fill_cache = cfg.fillc;
        I.snapslot = -1;
        std::vector<SstFile> before, after;
        parse_sstables(db_sstables(c.db), &before);
        if (o.b >= 0 && o.b < NSNAP && c.snaps[o.b].s) { ro.snapshot = c.snaps[o.b].s; I.snapslot = o.b; I.view = c.snaps[o.b].m; }
        I.jstart = c.journal.e.size();
        if (I.snapslot < 0) {
          // no writer runs concurrently in model-mode, so the view is the model at creation
          I.view = c.model;
        }
        I.it = ldb_iterator(c.db, &ro);
        parse_sstables(db_sstables(c.db), &after);
        I.pinned.clear();
        std::set<uint64_t> b;
        for (auto &f : before) b.insert(f.number);
        for (auto &f : after) if (b.count(f.number)) I.pinned.insert(f.number);
        I.valid = false; I.pos = I.view.end();
        probe("iterators_created");
      }
      break;
    case O_ITER_OP:
      if (o.a >= 0 && o.a < NITER && !c.its[o.a].it) { Op mk; mk.kind = O_ITER_NEW; mk.a = o.a; mk.b = (int)(o.tag % 9) < NSNAP ? (int)(o.tag % 9) : -1; do_op(c, mk, idx); }
      if (o.a >= 0 && o.a < NITER && c.its[o.a].it) {
        It &I = c.its[o.a];
        Model &V = I.view;
        ldb_slice_t t = S(o.key);
        switch (o.b) {
          case I_FIRST: ldb_iter_first(I.it); I.pos = V.begin(); I.valid = I.pos != V.end(); break;
          case I_LAST: ldb_iter_last(I.it); I.valid = !V.empty(); if (I.valid) { I.pos = V.end(); --I.pos; } break;
          case I_SEEK: ldb_iter_seek(I.it, &t); I.pos = V.lower_bound(o.key); I.valid = I.pos != V.end(); break;
          case I_SEEK_GE: ldb_iter_seek_ge(I.it, &t); I.pos = V.lower_bound(o.key); I.valid = I.pos != V.end(); break;
          case I_SEEK_GT: ldb_iter_seek_gt(I.it, &t); I.pos = V.upper_bound(o.key); I.valid = I.pos != V.end(); break;
          case I_SEEK_LE: ldb_iter_seek_le(I.it, &t); I.pos = V.upper_bound(o.key); I.valid = I.pos != V.begin(); if (I.valid) --I.pos; break;
          case I_SEEK_LT: ldb_iter_seek_lt(I.it, &t); I.pos = V.lower_bound(o.key); I.valid = I.pos != V.begin(); if (I.valid) --I.pos; break;
          case I_NEXT: if (!I.valid) return; ldb_iter_next(I.it); ++I.pos; I.valid = I.pos != V.end(); break;
          case I_PREV: if (!I.valid) return; ldb_iter_prev(I.it); if (I.pos == V.begin()) I.valid = false; else --I.pos; break;
          default: return;
        }
        check_iter(c, I, iterop_name[o.b]);
        if (I.valid && !failed() && c.aux.chance(0.2)) { // iterator agrees with point lookups on its view
          const ldb_snapshot_t *s = I.snapslot >= 0 ? c.snaps[I.snapslot].s : nullptr;
          if (s) check_get(c, I.pos->first, V, s, "C07", "iterator-vs-get");
        }
      }
      break;
    case O_ITER_FREE:
      if (o.a >= 0 && o.a < NITER && c.its[o.a].it) { ldb_iter_destroy(c.its[o.a].it); c.its[o.a].it = nullptr; c.its[o.a].view.clear(); }
      break;
    case O_FLUSH: {
      int rc = ldb_test_compact_memtable(c.db);
      if (rc != LDB_OK) { violation("C01", "flush_failed", "flush failed: %s", rcname(rc)); return; }
      structure_checks(c, true, "after flush");
      if (!failed()) sweep(c, "after flush");
      break;
    }
    case O_COMPACT_RANGE: {
      int lvl = o.a < 0 ? 0 : o.a > 5 ? 5 : o.a;
      if (o.a >= 6) { // push everything down, level by level, to the last level
        for (int l = 0; l <= 5; l++) ldb_test_compact_range(c.db, l, NULL, NULL);
        probe("push_down_to_last_level");
      } else if (o.b >= 1) { // 1: [a,b]  2: [a,end)  3: (begin,b]
        string a = o.key, b = o.key2;
        if (c.kc.cmp(b, a) < 0) std::swap(a, b);
        ldb_slice_t sa = S(a), sb = S(b);
        ldb_test_compact_range(c.db, lvl, o.b == 3 ? NULL : &sa, o.b == 2 ? NULL : &sb);
      } else ldb_test_compact_range(c.db, lvl, NULL, NULL);
      structure_checks(c, false, "after compact_range");
      if (!failed()) sweep(c, "after compact_range");
      break;
    }
    case O_COMPACT: {
      if (o.b >= 1) {
        string a = o.key, b = o.key2;
        if (c.kc.cmp(b, a) < 0) std::swap(a, b);
        ldb_slice_t sa = S(a), sb = S(b);
        ldb_compact(c.db, o.b == 3 ? NULL : &sa, o.b == 2 ? NULL : &sb);
      } else ldb_compact(c.db, NULL, NULL);
      structure_checks(c, true, "after compact");
      if (!failed()) sweep(c, "after compact");
      break;
    }
    case O_APPROX: {
      ldb_range_t r; string a = o.key, b = o.key2;
      if (c.kc.cmp(b, a) < 0) std::swap(a, b);
      r.start = S(a); r.limit = S(b);
      ldb_uint64_t sz = 0;
      ldb_approximate_sizes(c.db, &r, 1, &sz);
      if (sz > simfs::total_bytes(c.dir) + 1) violation("C01", "approx_size", "approximate size %llu exceeds the bytes on disk", (unsigned long long)sz);
      // several ranges in one call, one of them reversed (must be reported as empty)
      { ldb_range_t rr[3]; rr[0] = r; rr[1].start = S(b); rr[1].limit = S(a); rr[2].start = S(a); rr[2].limit = S(a); ldb_uint64_t ss[3] = {7, 7, 7};
        ldb_approximate_sizes(c.db, rr, 3, ss);
        if (c.kc.cmp(a, b) != 0 && ss[1] != 0) violation("C01", "approx_size", "approximate size of a reversed range is %llu, expected 0", (unsigned long long)ss[1]);
        if (ss[2] != 0) violation("C01", "approx_size", "approximate size of an empty range is %llu, expected 0", (unsigned long long)ss[2]);
        ldb_approximate_sizes(c.db, rr, 0, ss); }
      break;
    }
    case O_PROPERTY: {
      static const char *props[] = {"leveldb.stats", "leveldb.approximate-memory-usage", "leveldb.num-files-at-level0", "leveldb.num-files-at-level3", "leveldb.sstables"};
      char *v = nullptr;
      if (ldb_property(c.db, props[(o.a < 0 ? 0 : o.a) % 5], &v) && v) ldb_free(v);
      // C14: the per-level file counts agree with the listing (read at a quiescent point)
      {
        sim::drain();
        std::vector<SstFile> files;
        if (parse_sstables(db_sstables(c.db), &files)) {
          int lvl = (int)(c.aux.below(7));
          size_t want = 0; for (auto &f : files) if (f.level == lvl) want++;
          char name[64]; snprintf(name, sizeof name, "leveldb.num-files-at-level%d", lvl);
          char *nv = nullptr;
          if (!ldb_property(c.db, name, &nv) || !nv) violation("C14", "property_missing", "property %s is not answered", name);
          else { if ((size_t)atol(nv) != want) violation("C14", "num_files_mismatch", "%s = %s but leveldb.sstables lists %zu files at that level", name, nv, want); ldb_free(nv); }
          count("level_count_checks");
        }
        static const char *bad[] = {"leveldb.num-files-at-level7", "leveldb.num-files-at-level1x", "leveldb.num-files-at-level", "num-files-at-level0", "leveldb.nosuchproperty", ""};
        char *bv = nullptr;
        const char *bn = bad[c.aux.below(6)];
        if (ldb_property(c.db, bn, &bv)) { violation("C14", "property_bogus", "property '%s' is answered (%s) although no such property exists", bn, bv ? bv : "(null)"); if (bv) ldb_free(bv); }
      }
      break;
    }
    case O_SWEEP:
      if (o.b > 1) {
        // the same full scans many times over: iterators sample what they read (about once per MiB) and a file that
        // keeps being hit by samples of keys living in two files is scheduled for compaction
        sim::drain();
        long comp0 = (long)g_out->probes["log:Compacting "] + (long)g_out->probes["log:Moved #"];
        for (int i = 0; i < o.b && !failed(); i++) check_scan(c, c.model, nullptr, "C01", "repeated scan");
        sim::drain();
        if ((long)g_out->probes["log:Compacting "] + (long)g_out->probes["log:Moved #"] > comp0) probe("iterator_sampling_compactions");
      }
      structure_checks(c, false, "sweep");
      if (!failed()) sweep(c, "sweep");
      break;
    case O_REOPEN: {
      drop_handles(c);
      string layout_before;
      bool cmp_layout = false;
      if (o.b == 1) { // flush first: the write buffer is then empty and reopen must reproduce the layout
        int rc = ldb_test_compact_memtable(c.db);
        if (rc != LDB_OK) { violation("C01", "flush_failed", "flush failed: %s", rcname(rc)); return; }
        structure_checks(c, true, "before reopen");
        if (failed()) return;
        layout_before = db_sstables(c.db);
        cmp_layout = true;
      }
      sim::drain();
      scan_journal(c);
      ldb_close(c.db); c.db = nullptr;
      sim::drain();
      if (!o.s.empty()) {
        // reopen under different options: files written under the old block size, compression, filter policy,
        // cache, mmap and table-cache settings must read the same under the new ones
        Config n;
        if (n.parse(o.s)) { n.cmp = c.cfg.cmp; n.rlimit = c.cfg.rlimit; c.cfg = n; probe("reopen_new_options"); }
      }
      open_db(c, false);
      if (!c.db) return;
      if (cmp_layout) {
        // open_db read the listing under no-preempt, before the worker's first step
        const string &after = c.open_listing;
        if (after != layout_before) violation("C14", "reopen_layout", "layout after flush+reopen differs from the layout before close:\n--before--\n%s--after--\n%s", layout_before.c_str(), after.c_str());
        count("reopen_layout_checks");
      }
      structure_checks(c, true, "after reopen");
      if (!failed()) sweep(c, "after reopen");
      probe("reopens");
      break;
    }
    case O_KILL_RESTART: {
      // process kill at an operation boundary: OS image of the directory, taken while the worker may be mid-compaction
      scan_journal(c);
      string nd = "/sim/db" + std::to_string(++c.gen);
      simfs::copy_tree(c.dir, nd);
      simfs::remove_file(nd + "/LOCK");
      drop_handles(c);
      simfs::stop_recording();
      ldb_close(c.db); c.db = nullptr;
      sim::drain();
      simfs::remove_tree(c.dir);
      c.dir = nd;
      c.journal = simfs::Journal(); c.jscan = 0;
      simfs::start_recording(&c.journal, c.dir);
      c.mon.after_crash(c.dir);
      open_db(c, false);
      if (!c.db) return;
      structure_checks(c, true, "after kill_restart");
      if (!failed()) sweep(c, "after kill_restart");
      probe("kill_restarts");
      break;
    }
    default: break;
  }
}

} // namespace

// ---------------------------------------------------------------------------
Plan gen_model(uint64_t seed, const string &prop) {
  Rng r(mix64(seed, 0x6D0DE1));
  Plan p;
  p.mode = "model"; p.seed = seed;
  p.cfg = random_config(r);
  p.sc = random_sched(r, false);
  p.params["prop"] = prop;
  p.seti("clock_jumps", r.chance(0.3));
  int nkeys = (int)(r.chance(0.5) ? r.range(4, 24) : r.range(24, 200));
  std::vector<string> keys = make_keyspace(r, nkeys);
  int sizeclass = (int)r.below(10);
  int nops = sizeclass < 3 ? (int)r.range(10, 60) : sizeclass < 9 ? (int)r.range(100, 400) : (int)r.range(800, 1500);
  bool big_values = r.chance(0.05) && !g_light;
  bool mid_values = r.chance(0.4);
  if (big_values) nops = std::min(nops, 300);
  if (g_light) nops = std::min(nops, 250);
  if (!keys.empty() && keys[0].size() > 150) nops = std::min(nops, 250); // long-key key spaces are costly to sweep
  // swarm weights
  double w[O_NKINDS] = {0};
  auto sw = [&](double base) { static const double f[] = {0, 0.5, 1, 1, 2, 4}; return base * r.pick(f); };
  w[O_PUT] = 30 * (0.5 + r.unit()); w[O_DEL] = sw(8); w[O_WRITE] = sw(7); w[O_GET] = sw(8); w[O_SNAP] = sw(3); w[O_RELEASE] = sw(2);
  w[O_ITER_NEW] = sw(3); w[O_ITER_OP] = sw(14); w[O_ITER_FREE] = sw(1.5); w[O_FLUSH] = sw(3); w[O_COMPACT_RANGE] = sw(5); w[O_COMPACT] = sw(1);
  w[O_APPROX] = sw(0.5); w[O_PROPERTY] = sw(0.5); w[O_REOPEN] = sw(0.6); w[O_KILL_RESTART] = sw(0.5); w[O_SWEEP] = sw(1);
  if (prop == "C06") { w[O_SNAP] += 4; w[O_COMPACT_RANGE] += 5; w[O_GET] += 6; w[O_DEL] += 4; }
  if (prop == "C07") { w[O_ITER_NEW] += 3; w[O_ITER_OP] += 25; w[O_DEL] += 5; w[O_FLUSH] += 2; }
  if (prop == "C13") { w[O_ITER_NEW] += 3; w[O_FLUSH] += 4; w[O_COMPACT_RANGE] += 5; w[O_KILL_RESTART] += 1.5; w[O_REOPEN] += 1; w[O_ITER_FREE] += 1; }
  if (prop == "C14") { w[O_COMPACT_RANGE] += 8; w[O_FLUSH] += 4; w[O_REOPEN] += 1.5; w[O_SNAP] += 2; }
  if (prop == "C17") { w[O_REOPEN] += 3; w[O_KILL_RESTART] += 2; w[O_FLUSH] += 3; w[O_COMPACT_RANGE] += 4; }
  double tot = 0; for (double x : w) tot += x;
  uint64_t tag = 1;
  // workload styles: 0 generic; 1 locality (keys drawn from a small moving window, so flushed files are narrow and
  // overlap partially; ranged compactions); 2 hot key (one key receives many large versions pinned by snapshots, so a
  // compaction cuts its output inside that key)
  int style_draw = (int)r.below(20);
  int style = style_draw < 12 ? 0 : style_draw < 18 ? 1 : 2;
  if (p.cfg.cmp == 3 && r.chance(0.3)) style = 2; // a comparator that equates spellings + one key's versions cut across files: boundary-file handling must use the comparator
  if (g_light && style == 2) style = 1;
  p.seti("style", style);
  size_t win_base = 0, win_width = (size_t)r.range(2, 6);
  string hot = keys[keys.size() / 2];
  if (style == 1) { w[O_FLUSH] += 5; w[O_COMPACT_RANGE] += 7; w[O_COMPACT] += 2; w[O_KILL_RESTART] *= 0.3; w[O_REOPEN] *= 0.5; }
  if (style == 2) { w[O_FLUSH] += 3; w[O_COMPACT_RANGE] += 8; w[O_SNAP] += 6; w[O_RELEASE] *= 0.3; w[O_KILL_RESTART] *= 0.2; w[O_REOPEN] *= 0.3; nops = std::min(nops, 160); p.cfg.wbs = r.chance(0.5) ? 65536 : (4 << 20); }
  tot = 0; for (double x : w) tot += x;
  auto casevar = [&](string k) { if (p.cfg.cmp == 3 && r.chance(0.5)) for (auto &ch : k) if (isalpha((unsigned char)ch) && r.chance(0.5)) ch = (char)(ch ^ 0x20); return k; };
  auto key = [&]() -> string {
    if (style == 1) { if (r.chance(0.08)) win_base = (size_t)r.below(keys.size()); return casevar(keys[(win_base + r.below(win_width)) % keys.size()]); }
    if (style == 2 && r.chance(0.35)) return casevar(hot);
    return casevar(keys[r.below(keys.size())]);
  };
  auto near_key = [&](const string &k) -> string { // a key close to k in the sorted key space (for narrow compaction ranges)
    size_t i = std::lower_bound(keys.begin(), keys.end(), k) - keys.begin();
    long j = (long)i + (long)r.range(0, 4) - 2; if (j < 0) j = 0; if (j >= (long)keys.size()) j = (long)keys.size() - 1;
    return keys[(size_t)j];
  };
  auto vlen = [&]() -> uint32_t {
    int c = (int)r.below(100);
    if (style == 2 && c >= 70) return (uint32_t)r.range(150000, 400000);
    if (c < 3) return 0;
    if (c < 10) return (uint32_t)r.range(1, 40);
    if (big_values && c >= 97) return (uint32_t)r.range(300000, 1200000);
    if (mid_values && c >= 90) return (uint32_t)r.range(20000, 100000);
    return (uint32_t)r.range(100, 3000);
  };
  // style 3 (staged): build, with randomised parameters, the layout in which one user key's versions straddle two
  // adjacent files of level N while a level N+1 file reaches into the first of them - the situation boundary-file
  // handling in compaction input selection exists for - then compact a neighbouring range at level N.
  if (style == 2 && keys.size() >= 10 && r.chance(0.5)) {
    p.seti("style", 3);
    p.cfg.cmp = 0; p.cfg.comp = 0; p.cfg.mfs = 1 << 20; p.cfg.wbs = 4 << 20;
    size_t mid = keys.size() / 2; if (mid < 8) mid = 8; if (mid >= keys.size()) mid = keys.size() - 1;
    hot = keys[mid];
    int N = (int)r.range(1, 3);
    auto put = [&](const string &k, uint32_t len) { Op o; o.kind = O_PUT; o.key = k; o.tag = tag++; o.len = len; o.fill = 1; p.ops.push_back(o); };
    auto flush = [&]() { Op o; o.kind = O_FLUSH; p.ops.push_back(o); };
    auto push_down = [&](int upto) { for (int l = 0; l <= upto; l++) { Op o; o.kind = O_COMPACT_RANGE; o.a = l; o.b = 0; p.ops.push_back(o); } };
    // phase A: a file at level N+1 that ends just below the hot key
    put(keys[mid - 7], (uint32_t)r.range(100, 2000)); put(keys[mid - 2], (uint32_t)r.range(100, 2000)); flush(); push_down(N);
    // phase B: level N gets  a = [k(mid-6)..k(mid-4)] (about 1 MiB),  b1 = [k(mid-3) .. hot@newer],  b2 = [hot@older ..]
    put(keys[mid - 6], (uint32_t)r.range(500000, 560000)); put(keys[mid - 4], (uint32_t)r.range(500000, 560000));
    put(keys[mid - 3], (uint32_t)r.range(100, 3000));
    int nver = (int)r.range(4, 6);
    for (int v = 0; v < nver; v++) { Op sn; sn.kind = O_SNAP; sn.a = v; p.ops.push_back(sn); put(hot, (uint32_t)r.range(260000, 400000)); }
    if (mid + 1 < keys.size()) put(keys[mid + 1], (uint32_t)r.range(100, 3000));
    flush(); if (N > 0) push_down(N - 1);
    { Op o; o.kind = O_SWEEP; p.ops.push_back(o); }
    // phase C: compact the neighbouring range at level N
    { Op o; o.kind = O_COMPACT_RANGE; o.a = N; o.b = 1; o.key = keys[mid - 6]; o.key2 = keys[mid - 4]; p.ops.push_back(o); }
    { Op o; o.kind = O_SWEEP; p.ops.push_back(o); }
    nops = std::min(nops, 60);
  }
  // style 4 (bulk): tens of MiB of incompressible data, so that what lcdb decides by size actually happens: levels
  // >= 1 over their byte limit (size compactions below level 0, compact-pointer rotation), outputs cut because of
  // grandparent overlap, compactions with many output files, trivial moves refused, memtable output levels limited.
  // style 5 (read sampling): two overlapping level-0 files of a few large values, scanned over and over.
  int special = (style == 0 && !g_light) ? (int)r.below(g_thorough ? 30 : 120) : -1;
  if (special == 0 && keys.size() >= 24 && keys[0].size() < 100) {
    style = 4; p.seti("style", 4);
    p.cfg.cmp = 0; p.cfg.comp = 0; p.cfg.mfs = 1 << 20; p.cfg.wbs = r.chance(0.5) ? (4 << 20) : (1 << 20); p.cfg.cache = 0; p.cfg.block = 4096; p.cfg.mof = 1000;
    p.seti("clock_jumps", 0);
    auto put = [&](const string &k, uint32_t len) { Op o; o.kind = O_PUT; o.key = k; o.tag = tag++; o.len = len; o.fill = 1; p.ops.push_back(o); };
    auto flush = [&]() { Op o; o.kind = O_FLUSH; p.ops.push_back(o); };
    int N = (int)r.range(0, 2);
    // phase A: 12-16 MiB spread over the whole key space, pushed to level N+2
    size_t total = 0, target = (size_t)r.range(12, 16) << 20;
    while (total < target) { uint32_t len = (uint32_t)r.range(100000, 300000); put(keys[r.below(keys.size())], len); total += len; }
    flush();
    for (int l = 0; l <= N + 1; l++) { Op o; o.kind = O_COMPACT_RANGE; o.a = l; o.b = 0; p.ops.push_back(o); }
    // phase B: 6-10 MiB more in a few flushes; automatic compactions take it from here
    int nfl = (int)r.range(3, 6);
    for (int f = 0; f < nfl; f++) { size_t part = 0, pt = (size_t)r.range(1, 2) << 20; while (part < pt) { uint32_t len = (uint32_t)r.range(50000, 250000); put(keys[r.below(keys.size())], len); part += len; } flush(); }
    // one giant entry: a key that does not fit a log block, a value beyond 1 MiB (the iterator's saved-value buffer is
    // shrunk again after such a value), read backwards
    { string gk = keys[keys.size() / 3] + string((size_t)r.range(40000, 90000), 'G'); put(gk, (uint32_t)r.range(1500000, 3000000)); keys.push_back(gk); std::sort(keys.begin(), keys.end()); }
    { Op o; o.kind = O_SWEEP; p.ops.push_back(o); }
    { Op o; o.kind = O_COMPACT_RANGE; o.a = N + 1; o.b = 1; o.key = keys[keys.size() / 4]; o.key2 = keys[keys.size() / 2]; p.ops.push_back(o); }
    flush();
    { Op o; o.kind = O_REOPEN; o.b = 0; p.ops.push_back(o); }
    nops = (int)r.range(10, 40);
    w[O_SNAP] = 0; w[O_KILL_RESTART] *= 0.3; w[O_SWEEP] *= 0.3; w[O_ITER_NEW] *= 0.3;
    tot = 0; for (double x : w) tot += x;
  } else if (special == 2) {
    // style 6 (MANIFEST growth): with reuse_logs the descriptor is appended to across opens; 3 KiB keys make every
    // flush add about 6 KiB of file bounds, so that after some 180 flushes it passes max_file_size and the next open
    // must refuse to reuse it and write a compacted one
    style = 6; p.seti("style", 6);
    p.cfg.cmp = 0; p.cfg.reuse = 1; p.cfg.mfs = 1 << 20; p.cfg.wbs = 1 << 20; p.seti("clock_jumps", 0);
    keys.clear();
    for (int q = 0; q < 12; q++) { char b[16]; snprintf(b, sizeof b, "%02d", q); keys.push_back("L" + string((size_t)r.range(2700, 3000), 'k') + b); }
    std::sort(keys.begin(), keys.end());
    int nfl = (int)r.range(190, 230), every = (int)r.range(35, 70);
    for (int f = 0; f < nfl; f++) {
      Op o; o.kind = O_PUT; o.key = keys[r.below(keys.size())]; o.tag = tag++; o.len = (uint32_t)r.range(10, 200); o.fill = 0; p.ops.push_back(o);
      Op fl; fl.kind = O_FLUSH; p.ops.push_back(fl);
      if (f % every == every - 1) { Op ro; ro.kind = O_REOPEN; ro.b = 0; p.ops.push_back(ro); }
    }
    { Op ro; ro.kind = O_REOPEN; ro.b = 0; p.ops.push_back(ro); }
    { Op ro; ro.kind = O_REOPEN; ro.b = 1; p.ops.push_back(ro); }
    nops = (int)r.range(5, 25);
    w[O_KILL_RESTART] *= 0.5;
    tot = 0; for (double x : w) tot += x;
  } else if (special == 1 && keys.size() >= 6) {
    style = 5; p.seti("style", 5);
    p.cfg.cmp = 0; p.cfg.comp = 0; p.cfg.wbs = 4 << 20; p.cfg.mfs = 2 << 20;
    auto put = [&](const string &k, uint32_t len) { Op o; o.kind = O_PUT; o.key = k; o.tag = tag++; o.len = len; o.fill = 1; p.ops.push_back(o); };
    int nk = (int)r.range(3, 5);
    for (int f = 0; f < 2; f++) { for (int q = 0; q < nk; q++) put(keys[(size_t)q * (keys.size() / (size_t)nk)], (uint32_t)r.range(200000, 350000)); Op o; o.kind = O_FLUSH; p.ops.push_back(o); }
    { Op o; o.kind = O_SWEEP; o.b = (int)r.range(60, 110); p.ops.push_back(o); }
    nops = (int)r.range(5, 30);
  }
  for (int i = 0; i < nops; i++) {
    double x = r.unit() * tot; int k = 0;
    for (; k < O_NKINDS - 1; k++) { if (x < w[k]) break; x -= w[k]; }
    Op o; o.kind = k;
    switch (k) {
      case O_PUT: o.key = key(); o.tag = tag++; o.len = vlen(); if (style == 2 && o.key != hot && o.len > 100000) o.len = (uint32_t)r.range(100, 3000); o.fill = (int)r.below(2); o.sync = r.chance(0.1); break;
      case O_DEL: o.key = key(); o.sync = r.chance(0.1); break;
      case O_WRITE: {
        int n = r.chance(0.1) ? (int)r.range(20, 200) : r.chance(0.03) ? 0 : (int)r.range(1, 8); // now and then an empty batch
        for (int q = 0; q < n; q++) { Upd u; u.key = key(); u.del = r.chance(0.25); if (!u.del) { u.tag = tag++; u.len = n > 20 ? (uint32_t)r.range(0, 300) : vlen(); u.fill = (int)r.below(2); } o.ups.push_back(u); }
        o.sync = r.chance(0.1);
        if (r.chance(0.2)) o.a = (int)r.range(1, 4); // less common forms of the batch API
        break;
      }
      case O_GET: o.key = r.chance(0.85) ? key() : key() + "0"; o.a = r.chance(0.3) ? (int)r.below(NSNAP) : -1; o.b = r.chance(0.03) ? (int)r.range(100, 140) : 1; break;
      case O_SNAP: case O_RELEASE: o.a = (int)r.below(NSNAP); break;
      case O_ITER_NEW: o.a = (int)r.below(NITER); o.b = r.chance(0.4) ? (int)r.below(NSNAP) : -1; break;
      case O_ITER_OP: {
        o.a = (int)r.below(NITER); o.b = (int)r.below(I_NOPS); o.tag = r.below(9);
        if (r.chance(0.35)) o.b = r.chance(0.5) ? I_NEXT : I_PREV;
        int tt = (int)r.below(6);
        o.key = tt == 0 ? string() : tt == 1 ? string(3, '\xff') + "zz" : tt == 2 ? key() + "0" : tt == 3 ? string(1, '\x01') : key();
        break;
      }
      case O_ITER_FREE: o.a = (int)r.below(NITER); break;
      case O_COMPACT_RANGE: o.a = r.chance(0.1) ? 9 : (int)r.below(6); o.b = r.chance(style ? 0.7 : 0.4); if (o.b) { o.key = key(); o.key2 = style ? near_key(o.key) : key(); if (r.chance(0.3)) o.b = (int)r.range(2, 3); } break;
      case O_COMPACT: o.b = r.chance(style ? 0.7 : 0.3); if (o.b) { o.key = key(); o.key2 = style ? near_key(o.key) : key(); if (r.chance(0.35)) o.b = (int)r.range(2, 3); } break;
      case O_APPROX: o.key = key(); o.key2 = key(); break;
      case O_PROPERTY: o.a = (int)r.below(5); break;
      case O_REOPEN: o.b = r.chance(0.5); if (r.chance(0.5)) { Config n = random_config(r); n.cmp = p.cfg.cmp; n.rlimit = p.cfg.rlimit; o.s = n.str(); } break;
      default: break;
    }
    p.ops.push_back(o);
  }
  return p;
}

void exec_model(const Plan &p, RunOut *out) {
  begin_run(p, out);
  {
    Ctx c(p);
    c.dir = "/sim/db0";
    std::set<string> ks;
    for (auto &o : p.ops) {
      if (o.kind == O_PUT || o.kind == O_DEL || o.kind == O_GET) ks.insert(o.key);
      for (auto &u : o.ups) ks.insert(u.key);
    }
    c.keys.assign(ks.begin(), ks.end());
    simfs::start_recording(&c.journal, c.dir);
    open_db(c, true);
    bool jumps = p.geti("clock_jumps", 0) != 0;
    for (size_t i = 0; i < p.ops.size() && !failed() && c.db; i++) {
      if (jumps && c.aux.below(30) == 0) { sim::clock_jump((int64_t)c.aux.range(0, 7200) * 1000000 - 3600LL * 1000000); probe("fault:clock_jump"); }
      do_op(c, p.ops[i], (int)i);
      if (!failed() && i % 16 == 15) scan_journal(c);
    }
    if (c.db) {
      if (!failed()) { structure_checks(c, false, "end"); }
      if (!failed()) sweep(c, "end of run");
      drop_handles(c);
      sim::drain();
      if (!failed()) scan_journal(c);
      ldb_close(c.db);
      c.db = nullptr;
    }
    simfs::stop_recording();
    out->nontrivial = out->counts["structure_checks"] > 0 && out->counts["get_checks"] > 20;
  }
  end_run(out);
}
