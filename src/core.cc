#include "lsim.h"
#include "harness_scope.h"
#include <ctype.h>
#include <stdarg.h>
#include <stdio.h>
#include <stdlib.h>
#include <string.h>
#include <regex>
#include <sstream>

RunOut *g_out = nullptr;
bool g_thorough = false;
bool g_light = false;
std::vector<std::pair<string, string>> g_known;

const char *opkind_name[] = {"put", "del", "write", "get", "has", "snap", "release", "iter_new", "iter_op", "iter_free", "flush",
                             "compact_range", "compact", "approx", "property", "reopen", "backup", "kill_restart", "sweep",
                             "open2", "lock_probe", "destroy", "repair", "copy", "close", "open"};
const char *iterop_name[] = {"first", "last", "seek", "seek_ge", "seek_gt", "seek_le", "seek_lt", "next", "prev"};

void violation(const char *prop, const char *cls, const char *fmt, ...) {
  char b[1024];
  va_list ap; va_start(ap, fmt); vsnprintf(b, sizeof b, fmt, ap); va_end(ap);
  if (!g_known.empty()) {
    string pc = string(prop) + "." + cls;
    for (auto &k : g_known)
      if (k.first == pc && (k.second.empty() || std::regex_search(string(b), std::regex(k.second)))) {
        if (g_out->known.size() < 8) g_out->known.push_back({prop, cls, b});
        g_out->probes["known:" + pc]++;
        return;
      }
  }
  if (g_out->viol.size() < 8) g_out->viol.push_back({prop, cls, b});
}

// ------------------------------------------------------------------ hex / printing
string hexenc(const string &s) {
  static const char *d = "0123456789abcdef";
  if (s.empty()) return "-";
  string r;
  for (unsigned char c : s) { r.push_back(d[c >> 4]); r.push_back(d[c & 15]); }
  return r;
}
bool hexdec(const string &h, string *out) {
  out->clear();
  if (h == "-") return true;
  if (h.size() % 2) return false;
  for (size_t i = 0; i < h.size(); i += 2) {
    int v = 0;
    for (int k = 0; k < 2; k++) {
      char c = h[i + k]; int x;
      if (c >= '0' && c <= '9') x = c - '0'; else if (c >= 'a' && c <= 'f') x = c - 'a' + 10; else return false;
      v = v * 16 + x;
    }
    out->push_back((char)v);
  }
  return true;
}
string printable(const string &s, size_t max) {
  string r;
  char b[32];
  for (size_t i = 0; i < s.size() && i < max; i++) {
    unsigned char c = (unsigned char)s[i];
    if (c >= ' ' && c <= '~' && c != '\\' && c != '"') r.push_back((char)c); else { snprintf(b, sizeof b, "\\x%02x", c); r += b; }
  }
  if (s.size() > max) { snprintf(b, sizeof b, "..%zu", s.size()); r += b; }
  return r;
}

// ------------------------------------------------------------------ key=value token helpers
typedef std::vector<std::pair<string, string>> KV;
static KV tokens(const string &line) {
  KV r;
  std::istringstream is(line);
  string t;
  while (is >> t) { size_t e = t.find('='); if (e == string::npos) r.push_back({t, ""}); else r.push_back({t.substr(0, e), t.substr(e + 1)}); }
  return r;
}

string Config::str() const {
  char b[400];
  snprintf(b, sizeof b, "wbs=%zu mfs=%zu block=%zu restart=%d comp=%d filter=%d cache=%d mof=%d mmap=%d reuse=%d paranoid=%d cmp=%d verify=%d fillc=%d rlimit=%ld%s",
           wbs, mfs, block, restart, comp, filter, cache, mof, mmap, reuse, paranoid, cmp, verify, fillc, rlimit, sep ? " sep=1" : "");
  return b;
}
bool Config::parse(const string &s) {
  for (auto &kv : tokens(s)) {
    long v = atol(kv.second.c_str());
    const string &k = kv.first;
    if (k == "wbs") wbs = (size_t)v; else if (k == "mfs") mfs = (size_t)v; else if (k == "block") block = (size_t)v;
    else if (k == "restart") restart = (int)v; else if (k == "comp") comp = (int)v; else if (k == "filter") filter = (int)v;
    else if (k == "cache") cache = (int)v; else if (k == "mof") mof = (int)v; else if (k == "mmap") mmap = (int)v;
    else if (k == "reuse") reuse = (int)v; else if (k == "paranoid") paranoid = (int)v; else if (k == "cmp") cmp = (int)v;
    else if (k == "verify") verify = (int)v; else if (k == "fillc") fillc = (int)v; else if (k == "rlimit") rlimit = v; else if (k == "sep") sep = (int)v;
    else return false;
  }
  return true;
}
Config random_config(Rng &r) {
  Config c;
  static const size_t wbs[] = {65536, 65536, 65536, 131072, 1 << 20, 4 << 20};
  static const size_t blk[] = {1024, 2048, 4096, 16384};
  static const int ri[] = {1, 2, 4, 16, 64};
  static const long rl[] = {20, 250, 1024, 5000};
  c.wbs = r.pick(wbs); c.mfs = r.chance(0.8) ? (1 << 20) : (2 << 20); c.block = r.pick(blk); c.restart = r.pick(ri);
  c.comp = (int)r.below(2); c.filter = (int)r.below(3); c.cache = (int)r.below(3); c.mof = r.chance(0.3) ? 74 : 1000;
  c.mmap = (int)r.below(2); c.reuse = (int)r.below(2); c.paranoid = (int)r.below(2); c.cmp = r.chance(0.6) ? 0 : (int)r.range(1, 3);
  c.verify = (int)r.below(2); c.fillc = r.chance(0.8); c.rlimit = r.pick(rl);
  c.sep = (c.cmp == 1 || c.cmp == 2) && r.chance(0.5);
  // now and then a value outside what lcdb accepts as is (it clamps), or at the far end of the legal range
  int x = (int)r.below(100);
  if (x < 3) c.mof = x == 0 ? 0 : x == 1 ? -1 : 1000000;
  else if (x < 6) c.block = x == 3 ? 65536 : x == 4 ? (1 << 20) : 1;
  else if (x < 8) c.wbs = x == 6 ? 1 : (size_t)1 << 30;
  else if (x < 10) c.mfs = x == 8 ? 1 : (size_t)1 << 30;
  else if (x < 13) c.filter = x == 10 ? 3 : x == 11 ? 4 : 5;   // bloom with 44, 1 and 0 bits per key
  else if (x < 16) c.cache = 3;                                // 256 KiB: some blocks stay, some are evicted
  else if (x < 18) c.restart = x == 16 ? 3 : 1000;
  return c;
}

string sched_str(const sim::SchedConfig &s) {
  char b[300];
  snprintf(b, sizeof b, "policy=%d p=%.4f depth=%d horizon=%llu burst=%d seed=%llu spur=%d nonfifo=%d create=%d atomics=%d maxsteps=%llu",
           s.policy, s.p_switch, s.pct_depth, (unsigned long long)s.pct_horizon, s.burst, (unsigned long long)s.seed, (int)s.spurious,
           (int)s.nonfifo_signal, s.create_order, (int)s.atomics_yield, (unsigned long long)s.max_steps);
  return b;
}
bool sched_parse(const string &s, sim::SchedConfig *o) {
  for (auto &kv : tokens(s)) {
    const string &k = kv.first; const char *v = kv.second.c_str();
    if (k == "policy") o->policy = atoi(v); else if (k == "p") o->p_switch = atof(v); else if (k == "depth") o->pct_depth = atoi(v);
    else if (k == "horizon") o->pct_horizon = strtoull(v, 0, 10); else if (k == "burst") o->burst = atoi(v);
    else if (k == "seed") o->seed = strtoull(v, 0, 10); else if (k == "spur") o->spurious = atoi(v); else if (k == "nonfifo") o->nonfifo_signal = atoi(v);
    else if (k == "create") o->create_order = atoi(v); else if (k == "atomics") o->atomics_yield = atoi(v);
    else if (k == "maxsteps") o->max_steps = strtoull(v, 0, 10); else return false;
  }
  return true;
}
sim::SchedConfig random_sched(Rng &r, bool multi) {
  sim::SchedConfig s;
  static const double ps[] = {0.02, 0.1, 0.3, 1.0};
  int pol = (int)r.below(10);
  s.policy = pol < 4 ? sim::P_RANDOM : pol < 6 ? sim::P_PCT : pol == 6 ? sim::P_BG_STARVE : pol == 7 ? sim::P_BG_EAGER : sim::P_BURST;
  if (pol == 9) s.policy = sim::P_BG_STARVE;
  s.p_switch = r.pick(ps);
  s.pct_depth = (int)r.range(1, 3);
  s.pct_horizon = multi ? 30000 : 200000;
  s.burst = (int)r.range(5, 400);
  s.seed = r.next();
  bool legal_faults = r.chance(0.5);
  s.spurious = legal_faults && r.chance(0.6);
  s.nonfifo_signal = legal_faults && r.chance(0.6);
  s.create_order = legal_faults ? (int)r.below(3) : 0;
  s.atomics_yield = multi ? r.chance(0.7) : r.chance(0.3);
  return s;
}

// ------------------------------------------------------------------ ops and plans
string Op::str() const {
  char b[256];
  string r;
  snprintf(b, sizeof b, "op t=%d k=%s", tid, opkind_name[kind]); r = b;
  if (!key.empty() || kind == O_PUT || kind == O_DEL || kind == O_GET || kind == O_HAS) r += " key=" + hexenc(key);
  if (!key2.empty()) r += " key2=" + hexenc(key2);
  if (kind == O_PUT) { snprintf(b, sizeof b, " tag=%llu len=%u fill=%d", (unsigned long long)tag, len, fill); r += b; }
  if (sync) r += " sync=1";
  if (a != -1) { snprintf(b, sizeof b, " a=%d", a); r += b; }
  if (this->b != -1) { snprintf(b, sizeof b, " b=%d", this->b); r += b; }
  if (!s.empty()) r += " s=" + hexenc(s);
  for (auto &u : ups) {
    if (u.del) r += " u=d:" + hexenc(u.key);
    else { snprintf(b, sizeof b, ":%llu:%u:%d", (unsigned long long)u.tag, u.len, u.fill); r += " u=p:" + hexenc(u.key) + b; }
  }
  return r;
}
bool Op::parse(const string &line) {
  *this = Op();
  KV kv = tokens(line);
  if (kv.empty() || kv[0].first != "op") return false;
  for (size_t i = 1; i < kv.size(); i++) {
    const string &k = kv[i].first, &v = kv[i].second;
    if (k == "t") tid = atoi(v.c_str());
    else if (k == "k") { kind = -1; for (int j = 0; j < O_NKINDS; j++) if (v == opkind_name[j]) kind = j; if (kind < 0) return false; }
    else if (k == "key") { if (!hexdec(v, &key)) return false; }
    else if (k == "key2") { if (!hexdec(v, &key2)) return false; }
    else if (k == "tag") tag = strtoull(v.c_str(), 0, 10);
    else if (k == "len") len = (uint32_t)strtoul(v.c_str(), 0, 10);
    else if (k == "fill") fill = atoi(v.c_str());
    else if (k == "sync") sync = atoi(v.c_str());
    else if (k == "a") a = atoi(v.c_str());
    else if (k == "b") b = atoi(v.c_str());
    else if (k == "s") { if (!hexdec(v, &s)) return false; }
    else if (k == "u") {
      Upd u;
      std::vector<string> f; size_t p = 0;
      while (true) { size_t q = v.find(':', p); f.push_back(v.substr(p, q == string::npos ? q : q - p)); if (q == string::npos) break; p = q + 1; }
      if (f.size() >= 2 && f[0] == "d") { u.del = true; if (!hexdec(f[1], &u.key)) return false; }
      else if (f.size() >= 5 && f[0] == "p") { if (!hexdec(f[1], &u.key)) return false; u.tag = strtoull(f[2].c_str(), 0, 10); u.len = (uint32_t)strtoul(f[3].c_str(), 0, 10); u.fill = atoi(f[4].c_str()); }
      else return false;
      ups.push_back(u);
    } else return false;
  }
  return true;
}

string Plan::str() const {
  string r = "lsim-plan 1\nmode " + mode + "\n";
  char b[64]; snprintf(b, sizeof b, "seed %llu\n", (unsigned long long)seed); r += b;
  r += "cfg " + cfg.str() + "\n";
  r += "sched " + sched_str(sc) + "\n";
  for (auto &p : params) r += "param " + p.first + " " + p.second + "\n";
  if (!expect.empty()) r += "expect " + expect + "\n";
  for (auto &o : ops) r += o.str() + "\n";
  return r;
}
bool Plan::parse(const string &text, string *err) {
  *this = Plan();
  std::istringstream is(text);
  string line; int ln = 0;
  while (std::getline(is, line)) {
    ln++;
    if (line.empty() || line[0] == '#') continue;
    size_t sp = line.find(' ');
    string w = line.substr(0, sp), rest = sp == string::npos ? "" : line.substr(sp + 1);
    bool ok = true;
    if (w == "lsim-plan") {}
    else if (w == "mode") mode = rest;
    else if (w == "seed") seed = strtoull(rest.c_str(), 0, 10);
    else if (w == "cfg") ok = cfg.parse(rest);
    else if (w == "sched") ok = sched_parse(rest, &sc);
    else if (w == "param") { size_t q = rest.find(' '); params[rest.substr(0, q)] = q == string::npos ? "" : rest.substr(q + 1); }
    else if (w == "expect") expect = rest;
    else if (w == "op") { Op o; ok = o.parse(line); if (ok) ops.push_back(o); }
    else ok = false;
    if (!ok) { if (err) { char b[64]; snprintf(b, sizeof b, "line %d: ", ln); *err = b + line; } return false; }
  }
  return !mode.empty();
}
uint64_t Plan::hash() const { string s = str(); return hash_str(s); }
long Plan::geti(const string &k, long d) const { auto it = params.find(k); return it == params.end() ? d : atol(it->second.c_str()); }
void Plan::seti(const string &k, long v) { params[k] = std::to_string(v); }

// ------------------------------------------------------------------ values and keys
string mkval(uint64_t tag, uint32_t len, int fill) {
  if (len == 0) return string();
  char hd[40];
  int n = snprintf(hd, sizeof hd, "v%llu|", (unsigned long long)tag);
  string v(hd, (size_t)n);
  if (len > v.size()) {
    size_t base = v.size();
    v.resize(len);
    if (fill == 0) { char c = (char)('a' + tag % 26); for (size_t i = base; i < len; i++) v[i] = c; }
    else { Rng r(tag * 0x9E3779B97F4A7C15ULL + 77); for (size_t i = base; i < len; i += 8) { uint64_t x = r.next(); for (size_t k = 0; k < 8 && i + k < len; k++) v[i + k] = (char)(x >> (8 * k)); } }
  }
  return v;
}

std::vector<string> make_keyspace(Rng &r, int n) {
  std::set<string> ks;
  int style = (int)r.below(4);
  // one keyspace in twelve uses long keys (0.3 - 3 KiB, long shared prefix): file metadata in the MANIFEST then runs to
  // kilobytes per edit, so descriptor records cross 32 KiB block boundaries within a few flushes
  if (r.below(12) == 0) {
    string prefix(200 + r.below(800), 'P');
    if (n > 40) n = 40;
    while ((int)ks.size() < n) { char b[32]; snprintf(b, sizeof b, "/%05d/", (int)r.below(5000)); string k = prefix + b; k.append(r.below(2000), (char)('a' + r.below(26))); ks.insert(k); }
    return std::vector<string>(ks.begin(), ks.end());
  }
  while ((int)ks.size() < n) {
    int i = (int)ks.size();
    char b[96];
    string k;
    int t = (int)r.below(8);
    if (style == 0) t = 2; // plain numbered keys
    switch (t) {
      case 0: k = string(1, (char)('a' + r.below(26))); break;
      case 1: snprintf(b, sizeof b, "prefix/shared/long/common/part/%03d", i); k = b; break;
      case 2: snprintf(b, sizeof b, "key%04d", (int)r.below(2000)); k = b; break;
      case 3: snprintf(b, sizeof b, "k%d", i); k = b; k += string(1 + r.below(3), '\xff'); break;
      case 4: k = ""; break;
      case 5: { snprintf(b, sizeof b, "p%d", (int)r.below(6)); k = b; size_t ext = r.below(4); for (size_t j = 0; j < ext; j++) k.push_back((char)('0' + r.below(3))); break; } // prefixes of one another
      case 6: { size_t l = 1 + r.below(6); for (size_t j = 0; j < l; j++) { unsigned char c = (unsigned char)r.below(256); if (c == '\'' || c == '\\') c = 'q'; k.push_back((char)c); } break; }
      default: snprintf(b, sizeof b, "user%05d/attr", (int)r.below(300)); k = b; break;
    }
    ks.insert(k);
  }
  return std::vector<string>(ks.begin(), ks.end());
}

// ------------------------------------------------------------------ comparators
int KeyCmp::cmp(const string &a, const string &b) const {
  int r;
  switch (type) {
    default:
    case 0: r = a.compare(b); break;
    case 1: r = -a.compare(b); break;
    case 2: r = a.size() < b.size() ? -1 : a.size() > b.size() ? 1 : a.compare(b); break;
    case 3: {
      size_t n = a.size() < b.size() ? a.size() : b.size();
      r = 0;
      for (size_t i = 0; i < n && r == 0; i++) { int x = tolower((unsigned char)a[i]), y = tolower((unsigned char)b[i]); r = x - y; }
      if (r == 0) r = a.size() < b.size() ? -1 : a.size() > b.size() ? 1 : 0;
      break;
    }
  }
  return r < 0 ? -1 : r > 0 ? 1 : 0;
}
static int c_reverse(const ldb_comparator_t *, const ldb_slice_t *x, const ldb_slice_t *y) {
  size_t n = x->size < y->size ? x->size : y->size;
  int r = n ? memcmp(x->data, y->data, n) : 0;
  if (r == 0) r = x->size < y->size ? -1 : x->size > y->size ? 1 : 0;
  return r < 0 ? 1 : r > 0 ? -1 : 0;
}
static int c_lenfirst(const ldb_comparator_t *, const ldb_slice_t *x, const ldb_slice_t *y) {
  if (x->size != y->size) return x->size < y->size ? -1 : 1;
  int r = x->size ? memcmp(x->data, y->data, x->size) : 0;
  return r < 0 ? -1 : r > 0 ? 1 : 0;
}
static int c_caseless(const ldb_comparator_t *, const ldb_slice_t *x, const ldb_slice_t *y) {
  size_t n = x->size < y->size ? x->size : y->size;
  const unsigned char *a = (const unsigned char *)x->data, *b = (const unsigned char *)y->data;
  for (size_t i = 0; i < n; i++) { int d = tolower(a[i]) - tolower(b[i]); if (d) return d < 0 ? -1 : 1; }
  return x->size < y->size ? -1 : x->size > y->size ? 1 : 0;
}
// separator / successor callbacks (the public type of the first argument is ldb_slice_t, the object is lcdb's
// growable buffer: a callback may change bytes in place and shrink the size)
static void rev_separator(const ldb_comparator_t *, ldb_slice_t *start, const ldb_slice_t *limit) {
  // reverse order: start <= S < limit  means bytewise  limit < S <= start; the prefix of start that ends at the first
  // differing byte qualifies when start's byte is the larger one
  size_t n = start->size < limit->size ? start->size : limit->size, d = 0;
  const unsigned char *a = (const unsigned char *)start->data, *b = (const unsigned char *)limit->data;
  while (d < n && a[d] == b[d]) d++;
  if (d < n && a[d] > b[d] && d + 1 < start->size) start->size = d + 1;
}
static void rev_successor(const ldb_comparator_t *, ldb_slice_t *key) { if (key->size > 1) key->size = 1; } // a prefix sorts after the key in reverse order
static void len_separator(const ldb_comparator_t *, ldb_slice_t *start, const ldb_slice_t *limit) {
  // (length, bytes) order: only keys of the same length can be separated by changing bytes in place
  if (start->size != limit->size) return;
  unsigned char *a = (unsigned char *)start->data; const unsigned char *b = (const unsigned char *)limit->data;
  for (size_t d = 0; d < start->size; d++) {
    if (a[d] == b[d]) continue;
    if (a[d] < 0xff && a[d] + 1 < b[d]) { a[d]++; for (size_t q = d + 1; q < start->size; q++) a[q] = 0; }
    return;
  }
}
static void len_successor(const ldb_comparator_t *, ldb_slice_t *key) { unsigned char *a = (unsigned char *)key->data; for (size_t i = 0; i < key->size; i++) if (a[i] != 0xff) { a[i]++; for (size_t q = i + 1; q < key->size; q++) a[q] = 0; return; } }
static ldb_comparator_t make_cmp(const char *name, int (*f)(const ldb_comparator_t *, const ldb_slice_t *, const ldb_slice_t *), void (*sep)(const ldb_comparator_t *, ldb_slice_t *, const ldb_slice_t *), void (*succ)(const ldb_comparator_t *, ldb_slice_t *)) {
  ldb_comparator_t c = ldb_comparator(name, f, NULL);
  c.shortest_separator = sep; c.short_successor = succ;
  return c;
}
static ldb_comparator_t g_cmp_rev_cb = make_cmp("sim.Reverse", c_reverse, rev_separator, rev_successor);
static ldb_comparator_t g_cmp_len_cb = make_cmp("sim.LengthFirst", c_lenfirst, len_separator, len_successor);
static ldb_comparator_t g_cmp_rev = ldb_comparator("sim.Reverse", c_reverse, NULL);
static ldb_comparator_t g_cmp_len = ldb_comparator("sim.LengthFirst", c_lenfirst, NULL);
static ldb_comparator_t g_cmp_ci = ldb_comparator("sim.CaseInsensitive", c_caseless, NULL);
const ldb_comparator_t *lcdb_comparator(int type, int cb) { return type == 1 ? (cb ? &g_cmp_rev_cb : &g_cmp_rev) : type == 2 ? (cb ? &g_cmp_len_cb : &g_cmp_len) : type == 3 ? &g_cmp_ci : NULL; }

// ------------------------------------------------------------------ options / logger
static void logv(void *, const char *fmt, va_list ap) {
  sim::HarnessScope hs_;
  if (!g_out) return;
  char b[512];
  vsnprintf(b, sizeof b, fmt, ap);
  static const char *pats[] = {"Reusing old log", "Reusing MANIFEST", "Expanding@", "Moved #", "Compacting ", "Level-0 table", "Manual compaction",
                               "Delete type=0", "Delete type=2", "Delete type=3", "Delete type=4", "Recovering log", "Ignoring error", "dropping",
                               "Too many L0 files", "Current memtable full", "Compaction error", "Generated table", "Creating DB"};
  for (const char *p : pats) if (strstr(b, p)) { g_out->probes[string("log:") + p]++; }
  if (getenv("LSIM_LOG")) fprintf(stderr, "  [lcdb t%d] %s\n", sim::self_tid(), b);
}
DbOptions::DbOptions() { o = *ldb_dbopt_default; logger = ldb_logger_create(logv, NULL); o.info_log = logger; }
DbOptions::~DbOptions() {
  if (cache) ldb_lru_destroy(cache);
  if (bloom) ldb_bloom_destroy(bloom);
  if (logger) ldb_logger_destroy(logger);
}
void DbOptions::set(const Config &c, bool create) {
  o.create_if_missing = create;
  o.info_log = default_info_log ? NULL : logger;
  o.write_buffer_size = c.wbs; o.max_file_size = c.mfs; o.block_size = c.block; o.block_restart_interval = c.restart;
  o.compression = c.comp ? LDB_SNAPPY_COMPRESSION : LDB_NO_COMPRESSION;
  o.max_open_files = c.mof; o.use_mmap = c.mmap; o.reuse_logs = c.reuse; o.paranoid_checks = c.paranoid;
  o.comparator = lcdb_comparator(c.cmp, c.sep);
  if (bloom) { ldb_bloom_destroy(bloom); bloom = nullptr; }
  if (c.cmp == 3) o.filter_policy = NULL; // a bytewise bloom filter is not compatible with a comparator that equates different byte strings
  else if (c.filter == 1) o.filter_policy = ldb_bloom_default;
  else if (c.filter >= 2) { static const int bits[] = {2, 44, 1, 0}; bloom = ldb_bloom_create(bits[(c.filter - 2) % 4]); o.filter_policy = bloom; }
  else o.filter_policy = NULL;
  if (cache) { ldb_lru_destroy(cache); cache = nullptr; }
  if (c.cache == 1) cache = ldb_lru_create(0); else if (c.cache == 2) cache = ldb_lru_create(4096); else if (c.cache == 3) cache = ldb_lru_create(256 << 10);
  o.block_cache = cache;
}

const char *rcname(int rc) {
  switch (rc) {
    case 0: return "OK"; case LDB_NOTFOUND: return "NOTFOUND"; case LDB_CORRUPTION: return "CORRUPTION"; case LDB_NOSUPPORT: return "NOSUPPORT";
    case LDB_INVALID: return "INVALID"; case LDB_IOERR: return "IOERR";
  }
  static __thread char b[32];
  snprintf(b, sizeof b, "errno%d", rc);
  return b;
}

int db_get(ldb_t *db, const string &k, string *v, const ldb_snapshot_t *snap, int verify, int fillc) {
  ldb_readopt_t ro = *ldb_readopt_default;
  ro.snapshot = snap; ro.verify_checksums = verify; ro.fill_cache = fillc;
  ldb_slice_t kk = S(k), out;
  int rc = ldb_get(db, &kk, &out, &ro);
  if (rc == LDB_OK) { v->assign((const char *)out.data, out.size); ldb_free(out.data); }
  return rc;
}

// The same logical write through less common forms of the batch API.  mode 1: two batches joined with
// ldb_batch_append; 2: one batch object written twice (ldb_write stamps a sequence into the caller's batch; writing
// it again must apply the same updates again); 3: a batch reused after ldb_batch_reset; 4: as 0, after checking that
// ldb_batch_iterate reproduces the update list.
namespace { struct IterCollect { std::vector<std::pair<string, string>> puts_dels; };
void ic_put(ldb_handler_t *h, const ldb_slice_t *k, const ldb_slice_t *v) { ((IterCollect *)h->state)->puts_dels.push_back({"P" + str_of(*k), str_of(*v)}); }
void ic_del(ldb_handler_t *h, const ldb_slice_t *k) { ((IterCollect *)h->state)->puts_dels.push_back({"D" + str_of(*k), ""}); } }
int db_write_mode(ldb_t *db, const std::vector<Upd> &ups, int sync, int mode) {
  auto add = [](ldb_batch_t *b, const Upd &u) { ldb_slice_t k = S(u.key); if (u.del) ldb_batch_del(b, &k); else { string v = mkval(u.tag, u.len, u.fill); ldb_slice_t vv = S(v); ldb_batch_put(b, &k, &vv); } };
  ldb_writeopt_t wo; wo.sync = sync;
  int rc;
  if (mode == 1) {
    ldb_batch_t *a = ldb_batch_create(), *b = ldb_batch_create();
    for (size_t i = 0; i < ups.size(); i++) add(i < ups.size() / 2 ? a : b, ups[i]);
    ldb_batch_append(a, b);
    rc = ldb_write(db, a, &wo);
    ldb_batch_destroy(a); ldb_batch_destroy(b);
    return rc;
  }
  ldb_batch_t *b = ldb_batch_create();
  if (mode == 3) { Upd j; j.key = "junk-that-must-never-appear"; j.tag = 999999999; j.len = 5; add(b, j); ldb_batch_reset(b); }
  for (auto &u : ups) add(b, u);
  if (mode == 4) {
    IterCollect ic; ldb_handler_t h; memset(&h, 0, sizeof h); h.state = &ic; h.put = ic_put; h.del = ic_del;
    int irc = ldb_batch_iterate(b, &h);
    bool same = irc == LDB_OK && ic.puts_dels.size() == ups.size();
    for (size_t i = 0; same && i < ups.size(); i++) same = ic.puts_dels[i].first == (ups[i].del ? "D" : "P") + ups[i].key && (ups[i].del || ic.puts_dels[i].second == mkval(ups[i].tag, ups[i].len, ups[i].fill));
    if (!same) violation("C04", "batch_iterate", "ldb_batch_iterate does not reproduce the %zu updates put into the batch (rc %s, %zu callbacks)", ups.size(), rcname(irc), ic.puts_dels.size());
  }
  rc = ldb_write(db, b, &wo);
  if (mode == 2 && rc == LDB_OK) rc = ldb_write(db, b, &wo);
  ldb_batch_destroy(b);
  return rc;
}

int db_write(ldb_t *db, const std::vector<Upd> &ups, int sync) {
  ldb_batch_t *b = ldb_batch_create();
  for (auto &u : ups) {
    ldb_slice_t k = S(u.key);
    if (u.del) ldb_batch_del(b, &k);
    else { string v = mkval(u.tag, u.len, u.fill); ldb_slice_t vv = S(v); ldb_batch_put(b, &k, &vv); }
  }
  ldb_writeopt_t wo; wo.sync = sync;
  int rc = ldb_write(db, b, &wo);
  ldb_batch_destroy(b);
  return rc;
}

static int scan_impl(ldb_t *db, std::vector<std::pair<string, string>> *out, const ldb_snapshot_t *snap, int verify, bool back) {
  ldb_readopt_t ro = *ldb_iteropt_default;
  ro.snapshot = snap; ro.verify_checksums = verify;
  ldb_iter_t *it = ldb_iterator(db, &ro);
  if (back) { for (ldb_iter_last(it); ldb_iter_valid(it); ldb_iter_prev(it)) out->push_back({str_of(ldb_iter_key(it)), str_of(ldb_iter_value(it))}); }
  else { for (ldb_iter_first(it); ldb_iter_valid(it); ldb_iter_next(it)) out->push_back({str_of(ldb_iter_key(it)), str_of(ldb_iter_value(it))}); }
  int rc = ldb_iter_status(it);
  ldb_iter_destroy(it);
  return rc;
}
int db_scan(ldb_t *db, std::vector<std::pair<string, string>> *out, const ldb_snapshot_t *snap, int verify) { return scan_impl(db, out, snap, verify, false); }
int db_scan_back(ldb_t *db, std::vector<std::pair<string, string>> *out, const ldb_snapshot_t *snap, int verify) { return scan_impl(db, out, snap, verify, true); }

string db_sstables(ldb_t *db) {
  char *p = nullptr;
  if (!ldb_property(db, "leveldb.sstables", &p) || !p) return "";
  string s(p);
  ldb_free(p);
  return s;
}

// " 17:123['a' @ 5 : 1 .. 'd' @ 9 : 0]"
static bool unescape(const string &s, string *out) {
  out->clear();
  for (size_t i = 0; i < s.size(); i++) {
    if (s[i] == '\\' && i + 3 < s.size() + 0 && s[i + 1] == 'x') {
      string h = s.substr(i + 2, 2), d;
      if (!hexdec(h, &d) || d.size() != 1) return false;
      out->push_back(d[0]);
      i += 3;
    } else out->push_back(s[i]);
  }
  return true;
}
static bool parse_ikey_debug(const string &s, string *user, uint64_t *seq, int *type) {
  // 'escaped' @ seq : type
  if (s.size() < 2 || s[0] != '\'') return false;
  size_t e = s.rfind("' @ ");
  if (e == string::npos) return false;
  if (!unescape(s.substr(1, e - 1), user)) return false;
  unsigned long long sq; int ty;
  if (sscanf(s.c_str() + e + 4, "%llu : %d", &sq, &ty) != 2) return false;
  *seq = sq; *type = ty;
  return true;
}
bool parse_sstables(const string &text, std::vector<SstFile> *out) {
  std::istringstream is(text);
  string line;
  int level = -1;
  while (std::getline(is, line)) {
    if (line.compare(0, 10, "--- level ") == 0) { level = atoi(line.c_str() + 10); continue; }
    if (line.empty()) continue;
    if (line[0] != ' ' || level < 0) return false;
    SstFile f; f.level = level;
    unsigned long long num, size; int n = 0;
    if (sscanf(line.c_str(), " %llu:%llu[%n", &num, &size, &n) != 2 || n == 0) return false;
    f.number = num; f.size = size;
    string rest = line.substr((size_t)n);
    if (rest.empty() || rest[rest.size() - 1] != ']') return false;
    rest.resize(rest.size() - 1);
    // split at " .. '" that is preceded by " : <digit>"
    size_t p = string::npos;
    for (size_t q = rest.find(" .. '"); q != string::npos; q = rest.find(" .. '", q + 1))
      if (q >= 4 && rest[q - 2] == ' ' && rest[q - 3] == ':' && rest[q - 1] >= '0' && rest[q - 1] <= '9') { p = q; }
    if (p == string::npos) return false;
    if (!parse_ikey_debug(rest.substr(0, p), &f.smallest_user, &f.smallest_seq, &f.smallest_type)) return false;
    if (!parse_ikey_debug(rest.substr(p + 4), &f.largest_user, &f.largest_seq, &f.largest_type)) return false;
    out->push_back(f);
  }
  return true;
}

string table_path(const string &db, uint64_t number) {
  char b[64];
  snprintf(b, sizeof b, "/%06llu.ldb", (unsigned long long)number);
  return db + b;
}

bool parse_db_filename(const string &name, uint64_t *number, int *fclass) {
  *number = 0;
  int fc = simfs::classify("/" + name);
  *fclass = fc;
  if (fc == simfs::FC_CURRENT || fc == simfs::FC_LOCK || fc == simfs::FC_INFO) return true;
  const char *p = name.c_str();
  if (fc == simfs::FC_MANIFEST) p += 9;
  char *end;
  if (*p < '0' || *p > '9') return false;
  *number = strtoull(p, &end, 10);
  if (fc == simfs::FC_MANIFEST) return *end == 0;
  if (fc == simfs::FC_LOG || fc == simfs::FC_TABLE || fc == simfs::FC_TEMP) return *end == '.';
  return false;
}
