// crash-mode: record one multi-writer run on the simulated file system, then
// crash it at every journal boundary (process kill = byte-exact OS image; power
// loss = every image family the stated model allows), recover each image with the
// real ldb_open and judge the result.  Decides C02 C03 C05, the crash half of
// C04, the roll-over half of C17 and the orphan/leak half of C13.
#include "lsim.h"
#include "monitors.h"
#include <algorithm>
#include <stdio.h>
#include <string.h>

namespace {

struct BatchRec {
  int tid = 0, opidx = 0, sync = 0, rc = -1;
  std::vector<Upd> ups;          // ups[0] is the marker put
  string marker;
  size_t inv_j = 0, ret_j = (size_t)-1;
  string logfile;                // which log file holds its record (from the independent decoder)
  int seg_pos = -1;              // position inside that log
  bool returned = false;
};

struct Rec {
  const Plan *p = nullptr;
  ldb_t *db = nullptr;
  DbOptions *opt = nullptr;
  simfs::Journal journal;
  std::vector<BatchRec> batches;
  std::map<string, int> by_marker;
  std::vector<std::vector<int>> per_thread_ops;   // indices into p->ops
  std::vector<size_t> incarnations;               // journal positions at which the database was closed and opened again
  string dir = "/sim/db";
};
Rec *g_rec = nullptr;

string marker_key(int tid, int n) { char b[48]; snprintf(b, sizeof b, "m/%d/%06d", tid, n); return string(1, '\0') + b; }
bool is_marker(const string &k) { return k.size() > 2 && k[0] == '\0' && k[1] == 'm' && k[2] == '/'; }

void writer_thread(void *arg) {
  int tid = (int)(intptr_t)arg;
  Rec &R = *g_rec;
  for (int oi : R.per_thread_ops[tid]) {
    if (failed()) break;
    const Op &o = R.p->ops[oi];
    simfs::set_current_op(oi);
    switch (o.kind) {
      case O_WRITE: {
        int bi = -1;
        for (size_t i = 0; i < R.batches.size(); i++) if (R.batches[i].opidx == oi) bi = (int)i;
        if (bi < 0) { // an empty batch: legal, logged as a 12-byte record, changes nothing
          int rc = db_write(R.db, o.ups, o.sync);
          if (rc != LDB_OK) violation("C03", "write_failed", "write of an empty batch returned %s in a fault-free run", rcname(rc));
          probe("empty_batches");
          break;
        }
        BatchRec &b = R.batches[bi];
        b.inv_j = R.journal.e.size();
        b.rc = db_write(R.db, b.ups, b.sync);
        b.ret_j = R.journal.e.size();
        b.returned = true;
        if (b.rc != LDB_OK) violation("C03", "write_failed", "write returned %s in a fault-free run", rcname(b.rc));
        break;
      }
      case O_FLUSH: { int rc = ldb_test_compact_memtable(R.db); if (rc) violation("C03", "flush_failed", "flush returned %s in a fault-free run", rcname(rc)); break; }
      case O_COMPACT_RANGE: ldb_test_compact_range(R.db, o.a < 0 ? 0 : o.a > 5 ? 5 : o.a, NULL, NULL); break;
      case O_COMPACT: ldb_compact(R.db, NULL, NULL); break;
      case O_GET: { string v; db_get(R.db, o.key, &v, nullptr, 0, 1); break; }
      case O_REOPEN: {
        ldb_close(R.db); R.db = nullptr;
        R.incarnations.push_back(R.journal.e.size());
        { Config n = R.p->cfg; if (!o.s.empty() && n.parse(o.s)) { n.cmp = R.p->cfg.cmp; n.rlimit = R.p->cfg.rlimit; probe("reopen_new_options"); } else n = R.p->cfg; R.opt->set(n, true); }
        int rc = ldb_open(R.dir.c_str(), &R.opt->o, &R.db);
        if (rc) { violation("C05", "open_failed", "clean reopen failed: %s", rcname(rc)); R.db = nullptr; return; }
        probe("reopens");
        break;
      }
      default: break;
    }
  }
}

typedef std::map<string, string> Contents;

// apply the batches of S (ascending index = per-writer program order; writers own disjoint keys)
Contents fold(const Rec &R, const std::set<int> &S, const std::vector<BatchRec> *extra = nullptr) {
  Contents m;
  for (int bi : S) for (auto &u : R.batches[bi].ups) { if (u.del) m.erase(u.key); else m[u.key] = mkval(u.tag, u.len, u.fill); }
  if (extra) for (auto &b : *extra) for (auto &u : b.ups) { if (u.del) m.erase(u.key); else m[u.key] = mkval(u.tag, u.len, u.fill); }
  return m;
}

struct ImageCase { simfs::ImageSpec spec; bool kill; const char *family; };

struct Judge {
  Rec &R;
  const Plan &p;
  Rng rng;
  explicit Judge(Rec &r, const Plan &pl) : R(r), p(pl), rng(pl.seed ^ 0xC4A5) {}

  // the batches required / allowed to survive a crash at boundary k
  void sets(size_t k, bool kill, std::set<int> *required, std::set<int> *allowed, std::set<string> *unlinked_logs) {
    unlinked_logs->clear();
    for (size_t i = 0; i < k && i < R.journal.e.size(); i++)
      if (R.journal.e[i].t == simfs::J_UNLINK && simfs::classify(R.journal.e[i].a) == simfs::FC_LOG) unlinked_logs->insert(R.journal.e[i].a);
    for (size_t i = 0; i < R.batches.size(); i++) {
      const BatchRec &b = R.batches[i];
      if (b.rc != LDB_OK && b.returned) continue;
      bool acked = b.returned && b.ret_j <= k;
      bool started = b.inv_j < k;
      if (acked || started) allowed->insert((int)i);
      if (!acked) continue;
      if (kill) required->insert((int)i);
      else if (b.sync || (!b.logfile.empty() && unlinked_logs->count(b.logfile))) required->insert((int)i);
    }
  }

  // The process that recovers need not run with the options of the one that died: on half of the images the write
  // buffer is the smallest legal one (a log written under a larger buffer is then flushed in several pieces while it
  // is replayed), and log reuse, mmap and the table-cache size are flipped independently.
  Config recovery_config(const ImageCase &ic, int paranoid) {
    Config c = p.cfg; c.paranoid = paranoid;
    uint64_t h = mix64(ic.spec.seed, 0x0F710);
    if (h & 1) { c.wbs = 65536; probe("recovery_with_smallest_write_buffer"); }
    if ((h >> 1) % 4 == 0) c.reuse = !c.reuse;
    if ((h >> 3) % 4 == 0) c.mmap = !c.mmap;
    if ((h >> 5) % 4 == 0) c.mof = c.mof == 74 ? 1000 : 74;
    return c;
  }

  // Opens the image directory, scans it and judges the contents.  Returns false on violation.
  bool open_and_judge(const string &dir, const ImageCase &ic, int paranoid, const std::set<int> &required, const std::set<int> &allowed,
                      std::set<int> *S_out, Contents *got_out, ldb_t **db_out, DbOptions &opt, const char *stage, bool audit = false) {
    Config c = recovery_config(ic, paranoid);
    opt.set(c, true);
    ldb_t *db = nullptr;
    const char *fam = ic.family;
    // C17: whatever CURRENT names must be a complete, decodable MANIFEST
    if (simfs::exists(dir + "/CURRENT")) {
      ref::VersionState st; string err;
      if (!decode_manifest(dir, &st, &err)) { violation("C17", "current_incomplete", "%s image (%s) %s: %s", fam, ic.spec.describe().c_str(), stage, err.c_str()); return false; }
      count("manifest_decodes");
    }
    int rc = ldb_open(dir.c_str(), &opt.o, &db);
    count("recoveries");
    if (rc != LDB_OK) { violation("C05", "open_failed", "%s image (%s) %s: ldb_open fails with %s (paranoid_checks=%d reuse_logs=%d)", fam, ic.spec.describe().c_str(), stage, rcname(rc), paranoid, c.reuse); return false; }
    if (audit) {
      // orphan outputs / obsolete files are gone once recovery (and the compactions it triggers) has completed.
      // Audited before any iterator exists: a file kept alive by an iterator legitimately outlives a compaction.
      sim::drain();
      std::vector<SstFile> files;
      if (parse_sstables(db_sstables(db), &files)) { check_no_leaks(dir, files, "after crash recovery"); if (!failed()) check_manifest_replay(dir, files, p.cfg.cmp, "after crash recovery"); }
      if (failed()) { ldb_close(db); return false; }
    }
    std::vector<std::pair<string, string>> rows;
    rc = db_scan(db, &rows, nullptr, 1);
    if (rc != LDB_OK) { violation("C05", "scan_status", "%s image (%s) %s: scan after recovery reports %s", fam, ic.spec.describe().c_str(), stage, rcname(rc)); ldb_close(db); return false; }
    Contents got;
    std::set<int> S;
    for (auto &kv : rows) {
      got[kv.first] = kv.second;
      if (is_marker(kv.first)) { auto it = R.by_marker.find(kv.first); if (it == R.by_marker.end()) { violation("C05", "unknown_marker", "%s image: marker %s was never written", fam, printable(kv.first).c_str()); ldb_close(db); return false; } S.insert(it->second); }
    }
    Contents want = fold(R, S);
    if (want != got) {
      // classify: partially applied batch, value never written, or resurrected older value
      string why = "contents differ from the fold of the surviving batches";
      const char *prop = "C05", *cls = "contents_not_fold";
      for (auto &kv : got) {
        auto w = want.find(kv.first);
        if (w != want.end() && w->second == kv.second) continue;
        // which batch wrote this value?
        int owner = -1;
        for (size_t i = 0; i < R.batches.size() && owner < 0; i++) for (auto &u : R.batches[i].ups) if (!u.del && u.key == kv.first && mkval(u.tag, u.len, u.fill) == kv.second) { owner = (int)i; break; }
        if (owner < 0) { cls = "value_never_written"; why = "key " + printable(kv.first) + " holds a value that no batch wrote: " + printable(kv.second); }
        else if (!S.count(owner)) { prop = "C04"; cls = "partial_batch"; why = "key " + printable(kv.first) + " holds a value of batch " + printable(R.batches[owner].marker) + " whose marker is absent (batch applied partially)"; }
        else { cls = "stale_value"; why = "key " + printable(kv.first) + " holds the value of surviving batch " + printable(R.batches[owner].marker) + " although a later surviving batch overwrote or deleted it"; }
        break;
      }
      if (!strcmp(cls, "contents_not_fold"))
        for (auto &kv : want) if (!got.count(kv.first)) {
          bool in_marked = false;
          for (int bi : S) for (auto &u : R.batches[bi].ups) if (!u.del && u.key == kv.first) in_marked = true;
          if (in_marked) { prop = "C04"; cls = "partial_batch"; why = "key " + printable(kv.first) + " is missing although the batch that wrote it survived (marker present)"; }
          break;
        }
      violation(prop, cls, "%s image (%s) %s: %s [survivors %zu of %zu batches]", fam, ic.spec.describe().c_str(), stage, why.c_str(), S.size(), R.batches.size());
      ldb_close(db);
      return false;
    }
    for (int bi : required) if (!S.count(bi)) {
      const BatchRec &b = R.batches[bi];
      violation(ic.kill ? "C03" : "C02", ic.kill ? "acked_lost" : "durable_lost", "%s image (%s) %s: batch %s (sync=%d, log %s, acknowledged at journal index %zu) is missing after recovery", fam, ic.spec.describe().c_str(), stage,
                printable(b.marker).c_str(), b.sync, b.logfile.c_str(), b.ret_j);
      ldb_close(db);
      return false;
    }
    for (int bi : S) if (!allowed.count(bi)) {
      violation("C05", "unissued_batch", "%s image (%s) %s: batch %s was not yet issued at the crash point but is present", fam, ic.spec.describe().c_str(), stage, printable(R.batches[bi].marker).c_str());
      ldb_close(db);
      return false;
    }
    // C05 shape: within each log segment the survivors form a prefix
    {
      std::map<string, std::vector<std::pair<int, int>>> seg; // log -> (pos, batch)
      for (size_t i = 0; i < R.batches.size(); i++) if (!R.batches[i].logfile.empty()) seg[R.batches[i].logfile].push_back({R.batches[i].seg_pos, (int)i});
      for (auto &s : seg) {
        std::sort(s.second.begin(), s.second.end());
        bool gap = false;
        for (auto &pb : s.second) {
          bool in = S.count(pb.second) != 0;
          if (in && gap) { violation("C05", "segment_not_prefix", "%s image (%s) %s: batch %s survives although an earlier batch of the same log segment %s is lost", fam, ic.spec.describe().c_str(), stage, printable(R.batches[pb.second].marker).c_str(), s.first.c_str()); ldb_close(db); return false; }
          if (!in) gap = true;
        }
      }
    }
    *S_out = S; *got_out = got; *db_out = db;
    return true;
  }

  bool check_image(const ImageCase &ic) {
    static const string img = "/sim/img";
    std::set<int> required, allowed; std::set<string> ul;
    sets(ic.spec.k, ic.kill, &required, &allowed, &ul);
    sim::budget_reset();
    simfs::mount_image(R.journal, ic.spec, img);
    count("images");
    probe(ic.kill ? "crash:kill_image" : "crash:power_image");
    if (ic.spec.lenpolicy == simfs::L_TORN_LAST || ic.spec.lenpolicy == simfs::L_TORN_ALIGNED) probe("crash:torn_tail");
    int paranoid = (int)(ic.spec.seed & 1);
    bool nested = (ic.spec.seed >> 3) % 6 == 0;
    bool followup = (ic.spec.seed >> 6) % 3 == 0;
    simfs::Journal rj;
    if (nested) simfs::start_recording(&rj, img);
    std::set<int> S; Contents got; ldb_t *db = nullptr;
    DbOptions opt;
    bool ok = open_and_judge(img, ic, paranoid, required, allowed, &S, &got, &db, opt, "first open", (ic.spec.seed >> 9) % 4 == 0);
    if (!ok) { simfs::stop_recording(); return false; }
    std::vector<BatchRec> extra;
    if (followup) {
      // writes made after recovery take precedence and persist across the next reopen
      BatchRec fb; fb.sync = 0;
      Upd m; m.key = string(1, '\0') + "m/follow"; m.tag = 900000001; m.len = 8; fb.ups.push_back(m);
      Upd a; a.key = "zz-follow"; a.tag = 900000002; a.len = 20; fb.ups.push_back(a);
      if (!got.empty()) { auto it = got.begin(); std::advance(it, rng.below(got.size())); if (!is_marker(it->first)) { Upd o; o.key = it->first; o.tag = 900000003; o.len = 30; fb.ups.push_back(o); } }
      if (got.size() > 2) { auto it = got.begin(); std::advance(it, rng.below(got.size())); if (!is_marker(it->first)) { Upd d; d.key = it->first; d.del = true; fb.ups.push_back(d); } }
      int rc = db_write(db, fb.ups, 0);
      if (rc != LDB_OK) { violation("C05", "followup_write_failed", "%s image (%s): write after recovery fails with %s", ic.family, ic.spec.describe().c_str(), rcname(rc)); ldb_close(db); simfs::stop_recording(); return false; }
      extra.push_back(fb);
      count("followups");
    }
    ldb_close(db); db = nullptr;
    sim::drain();
    simfs::stop_recording();
    // second open: idempotent, follow-up writes present
    {
      Config c = p.cfg; c.paranoid = (int)((ic.spec.seed >> 1) & 1);
      DbOptions opt2; opt2.set(c, true);
      int rc = ldb_open(img.c_str(), &opt2.o, &db);
      count("recoveries");
      if (rc != LDB_OK) { violation("C05", followup ? "reopen_after_followup_failed" : "second_open_failed", "%s image (%s): opening again after a successful recovery%s fails with %s (paranoid_checks=%d reuse_logs=%d)", ic.family, ic.spec.describe().c_str(), followup ? " and a follow-up write" : "", rcname(rc), c.paranoid, c.reuse); return false; }
      std::vector<std::pair<string, string>> rows;
      db_scan(db, &rows, nullptr, 1);
      Contents got2; for (auto &kv : rows) got2[kv.first] = kv.second;
      Contents want2 = fold(R, S, &extra);
      ldb_close(db); db = nullptr;
      sim::drain();
      if (got2 != want2) {
        bool lost_follow = followup && !got2.count(string(1, '\0') + "m/follow");
        violation("C05", lost_follow ? "followup_lost" : "not_idempotent", "%s image (%s): after recovery%s and a second reopen the contents changed (%zu keys, expected %zu)%s", ic.family, ic.spec.describe().c_str(),
                  followup ? " + follow-up write" : "", got2.size(), want2.size(), lost_follow ? ": the acknowledged follow-up batch is gone" : "");
        return false;
      }
    }
    // nested: crash inside the recovery itself, same required set
    if (nested && rj.e.size() > 0) {
      for (int t = 0; t < 3 && !failed(); t++) {
        simfs::ImageSpec s2;
        s2.k = (size_t)rng.range(1, rj.e.size());
        size_t f2 = simfs::min_dircut(rj, s2.k);
        s2.seed = rng.next();
        ImageCase ic2; ic2.kill = ic.kill; ic2.family = ic.kill ? "nested-kill" : "nested-power";
        if (ic.kill) { s2.dircut = s2.k; s2.lenpolicy = simfs::L_WRITTEN; }
        else { int v = (int)rng.below(3); s2.dircut = v == 0 ? f2 : v == 1 ? s2.k : (size_t)rng.range(f2, s2.k); s2.lenpolicy = v == 0 ? simfs::L_SYNCED : v == 1 ? simfs::L_SYNCED : simfs::L_RANDOM; }
        ic2.spec = s2;
        simfs::mount_image(rj, s2, "/sim/img2");
        count("images"); count("nested_images"); probe("crash:nested_image");
        std::set<int> S2; Contents g2; ldb_t *db2 = nullptr; DbOptions o2;
        // anything that was written after recovery (follow-up) may or may not be there: only judge the recorded batches
        std::set<int> allowed2 = allowed;
        bool ok2 = open_and_judge_nested("/sim/img2", ic2, (int)(s2.seed & 1), required, allowed2, o2, S);
        (void)S2; (void)g2; (void)db2;
        if (!ok2) return false;
      }
      simfs::remove_tree("/sim/img2");
    }
    return true;
  }

  bool open_and_judge_nested(const string &dir, const ImageCase &ic, int paranoid, const std::set<int> &required, const std::set<int> &allowed, DbOptions &opt, const std::set<int> &first_recovery) {
    // the follow-up batch (if its record reached the image) is tolerated: strip it before judging
    Config c = recovery_config(ic, paranoid);
    opt.set(c, true);
    ldb_t *db = nullptr;
    int rc = ldb_open(dir.c_str(), &opt.o, &db);
    count("recoveries");
    if (rc != LDB_OK) { violation("C05", "nested_open_failed", "%s image (%s) after a crash inside recovery: ldb_open fails with %s (paranoid_checks=%d reuse_logs=%d)", ic.family, ic.spec.describe().c_str(), rcname(rc), paranoid, c.reuse); return false; }
    std::vector<std::pair<string, string>> rows;
    rc = db_scan(db, &rows, nullptr, 1);
    ldb_close(db);
    sim::drain();
    if (rc != LDB_OK) { violation("C05", "scan_status", "%s image: scan reports %s", ic.family, rcname(rc)); return false; }
    Contents got; std::set<int> S; bool follow = false;
    for (auto &kv : rows) {
      got[kv.first] = kv.second;
      if (kv.first == string(1, '\0') + "m/follow") { follow = true; continue; }
      if (is_marker(kv.first)) { auto it = R.by_marker.find(kv.first); if (it != R.by_marker.end()) S.insert(it->second); }
    }
    if (!follow) {
      Contents want = fold(R, S);
      if (want != got) { violation("C05", "nested_contents_not_fold", "%s image (%s): contents after a crash inside recovery are not the fold of the surviving batches", ic.family, ic.spec.describe().c_str()); return false; }
    }
    for (int bi : required) if (!S.count(bi)) {
      violation(ic.kill ? "C03" : "C02", ic.kill ? "nested_acked_lost" : "nested_durable_lost", "%s image (%s): batch %s is lost by a crash inside the recovery that follows the first crash", ic.family, ic.spec.describe().c_str(), printable(R.batches[bi].marker).c_str());
      return false;
    }
    for (int bi : S) if (!allowed.count(bi)) { violation("C05", "unissued_batch", "%s image: unissued batch present", ic.family); return false; }
    // "crashing during recovery itself loses nothing further": whatever the first recovery had found must still be found
    for (int bi : first_recovery) if (!S.count(bi)) {
      violation("C05", "nested_lost_further", "%s image (%s): batch %s was recovered by the first open after the crash, but is lost when the recovery itself is interrupted and repeated", ic.family, ic.spec.describe().c_str(), printable(R.batches[bi].marker).c_str());
      return false;
    }
    return true;
  }
};

// map batches to log files (and check group-commit composition) with the independent decoders
void decode_logs(Rec &R) {
  std::map<uint64_t, string> ino_path;
  for (auto &e : R.journal.e) if (e.t == simfs::J_CREATE && simfs::classify(e.a) == simfs::FC_LOG) ino_path[e.ino] = e.a;
  for (auto &ip : ino_path) {
    auto d = R.journal.data.find(ip.first);
    if (d == R.journal.data.end()) continue;
    ref::LogDecode ld = ref::log_decode(d->second);
    if (!ld.problems.empty()) { violation("C15", "log_bytes", "log %s written by a fault-free run does not decode cleanly: %s", ip.second.c_str(), ld.problems[0].c_str()); return; }
    int pos = 0;
    std::map<int, int> last_op_of_thread;
    for (auto &rec : ld.records) {
      ref::Batch b;
      if (!ref::batch_decode(rec.data, &b)) { violation("C04", "log_record_not_batch", "log %s holds a record that is not a well-formed write batch", ip.second.c_str()); return; }
      size_t i = 0; int members = 0;
      while (i < b.ops.size()) {
        if (b.ops[i].del || !is_marker(b.ops[i].key)) { violation("C04", "group_commit_split", "log %s: a record does not start a member batch with its marker (member batches must stay whole and ordered)", ip.second.c_str()); return; }
        auto it = R.by_marker.find(b.ops[i].key);
        if (it == R.by_marker.end()) { violation("C04", "group_commit_split", "log %s: unknown marker in record", ip.second.c_str()); return; }
        BatchRec &br = R.batches[it->second];
        if (i + br.ups.size() > b.ops.size()) { violation("C04", "group_commit_split", "log %s: member batch %s is cut short inside a group-commit record", ip.second.c_str(), printable(br.marker).c_str()); return; }
        for (size_t q = 0; q < br.ups.size(); q++) {
          const Upd &u = br.ups[q]; const ref::BatchOp &o = b.ops[i + q];
          if (u.del != o.del || u.key != o.key || (!u.del && mkval(u.tag, u.len, u.fill) != o.value)) { violation("C04", "group_commit_split", "log %s: member batch %s differs from what its writer issued", ip.second.c_str(), printable(br.marker).c_str()); return; }
        }
        auto lo = last_op_of_thread.find(br.tid);
        if (lo != last_op_of_thread.end() && lo->second > br.opidx) { violation("C04", "group_commit_order", "log %s: batches of writer %d are logged out of program order", ip.second.c_str(), br.tid); return; }
        last_op_of_thread[br.tid] = br.opidx;
        br.logfile = ip.second; br.seg_pos = pos++;
        i += br.ups.size(); members++;
      }
      if (members > 1) probe("group_commit_records");
    }
  }
}

} // namespace

// ---- where a batch's log record ends (the generator aligns some records with 32 KiB block boundaries)
static size_t varint_len(uint64_t v) { size_t n = 1; while (v >= 128) { v >>= 7; n++; } return n; }
static size_t batch_payload(const std::vector<Upd> &ups) {
  size_t n = 12;
  for (auto &u : ups) { n += 1 + varint_len(u.key.size()) + u.key.size(); if (!u.del) n += varint_len(u.len) + u.len; }
  return n;
}
static size_t log_advance(size_t pos, size_t payload) {
  size_t left = payload;
  do {
    size_t leftover = 32768 - pos % 32768;
    if (leftover < 7) { pos += leftover; leftover = 32768; }
    size_t frag = std::min(left, leftover - 7);
    pos += 7 + frag; left -= frag;
  } while (left > 0);
  return pos;
}

// ---------------------------------------------------------------------------
Plan gen_crash(uint64_t seed, const string &prop) {
  Rng r(mix64(seed, 0xC4A54));
  Plan p;
  p.mode = "crash"; p.seed = seed;
  p.cfg = random_config(r);
  if (r.chance(0.6)) p.cfg.wbs = 65536;
  if (p.cfg.cmp == 3) p.cfg.cmp = 0; // the judges compare maps keyed by byte strings: comparators that equate different strings stay out
  int nthreads = r.chance(0.55) ? 1 : (int)r.range(2, 3);
  // C13 flavour (two runs in three): the file-set rules look at the session itself, so make it eventful - several
  // writers filling 64 KiB write buffers while another caller compacts - and spend less on crash images
  bool c13 = prop == "C13" ? r.chance(0.67) : r.chance(0.12); // the other crash campaigns get a share of it as well
  if (c13) { nthreads = (int)r.range(2, 3); p.cfg.wbs = 65536; }
  p.sc = random_sched(r, nthreads > 1);
  p.params["prop"] = prop;
  p.seti("threads", nthreads);
  int sizeclass = (int)r.below(10);
  if (c13 && sizeclass < 4) sizeclass = 4 + (int)r.below(6);
  int nops = sizeclass < 4 ? (int)r.range(3, 10) : sizeclass < 9 ? (int)r.range(12, 45) : (int)r.range(60, 110);
  double sync_rate = r.chance(0.3) ? 0.0 : r.chance(0.5) ? 0.25 : 0.7;
  if (prop == "C02") sync_rate = std::max(sync_rate, 0.25);
  bool bigbatches = r.chance(0.3);
  int nkeys = (int)r.range(3, 14);
  uint64_t tag = 1;
  std::vector<int> nmark(nthreads, 0);
  // aligned flavour (single writer): while the position in the first log is still predictable, one batch is sized so
  // that its record ends exactly on, or 1/6/7/8 bytes before, a 32 KiB block boundary
  // big-compaction flavour: two overlapping level-0 files of about 0.75 MiB of incompressible data each, so that the
  // manual compaction that follows writes several output files (max_file_size 1 MiB) - crashed at every boundary
  bool bigc = !g_light && !c13 && r.chance(g_thorough ? 0.05 : 0.015);
  if (bigc) {
    nthreads = 1; p.seti("threads", 1); nmark.assign(1, 0);
    p.cfg.wbs = 4 << 20; p.cfg.mfs = 1 << 20; p.cfg.comp = 0;
    for (int f = 0; f < 2; f++) {
      int nb = (int)r.range(6, 8);
      for (int b = 0; b < nb; b++) {
        Op o; o.tid = 0; o.kind = O_WRITE;
        Upd m; m.key = marker_key(0, nmark[0]++); m.tag = tag++; m.len = 8; o.ups.push_back(m);
        Upd u; char kb[48]; snprintf(kb, sizeof kb, "w0/k%03d", f + 2 * b); u.key = kb; u.tag = tag++; u.fill = 1; u.len = (uint32_t)r.range(90000, 120000); o.ups.push_back(u);
        o.sync = r.chance(0.3);
        p.ops.push_back(o);
      }
      Op fl; fl.kind = O_FLUSH; fl.tid = 0; p.ops.push_back(fl);
    }
    // the first flush lands in level 2 (nothing overlaps), the second in level 1: merge them there
    for (int l = 0; l <= 1; l++) { Op o; o.kind = O_COMPACT_RANGE; o.a = l; o.tid = 0; p.ops.push_back(o); }
    nops = (int)r.range(2, 8);
    p.seti("big_compaction", 1);
  }
  bool aligned = nthreads == 1 && !bigc && r.chance(0.3);
  size_t logpos = 0; bool pos_known = true; int align_at = aligned ? (int)r.below(4) : -1, nwrites = 0;
  for (int i = 0; i < nops; i++) {
    Op o; o.tid = (int)r.below(nthreads);
    int c = (int)r.below(100);
    if (aligned && pos_known && nwrites <= align_at) c = 0; // writes first
    if (c13 && c >= 60 && c < 74) c = 84 + (int)r.below(9); // more manual compactions
    if (c < 74) {
      o.kind = O_WRITE;
      Upd m; m.key = marker_key(o.tid, nmark[o.tid]++); m.tag = tag++; m.len = 8; o.ups.push_back(m);
      int n = (int)r.range(1, 4);
      bool big = bigbatches && r.chance(0.2);
      if (big) n = r.chance(0.5) ? (int)r.range(200, 1500) : (int)r.range(2, 5);
      for (int q = 0; q < n; q++) {
        Upd u; char kb[48]; snprintf(kb, sizeof kb, "w%d/k%03d", o.tid, (int)r.below(big && n > 100 ? 400 : nkeys)); u.key = kb;
        u.del = r.chance(0.2);
        if (!u.del) { u.tag = tag++; u.fill = (int)r.below(2); int lc = (int)r.below(100); u.len = n > 100 ? (uint32_t)r.range(0, 120) : lc < 5 ? 0 : lc < (c13 ? 40 : 80) ? (uint32_t)r.range(100, 3000) : (big || lc >= 95) ? (uint32_t)r.range(20000, 90000) : (uint32_t)r.range(3000, 9000); }
        o.ups.push_back(u);
      }
      o.sync = r.chance(sync_rate);
      if (aligned && pos_known) {
        if (nwrites == align_at) {
          static const size_t tails[] = {0, 0, 0, 1, 6, 7, 8};
          size_t t = r.pick(tails), blocks = r.chance(0.75) ? 1 : 2;
          Upd u; u.key = "w0/align"; u.tag = tag++; u.fill = (int)r.below(2); u.len = 0;
          o.ups.push_back(u);
          o.sync = 0;
          size_t want = (logpos / 32768 + blocks) * 32768 - t;
          for (size_t L = 0; L < 70000; L++) { o.ups.back().len = (uint32_t)L; size_t e = log_advance(logpos, batch_payload(o.ups)); if (e == want) { p.seti("aligned_record_end", (long)e); break; } if (e > want) break; }
        }
        logpos = log_advance(logpos, batch_payload(o.ups));
        nwrites++;
        if (logpos > 40000 && nwrites <= align_at) pos_known = false; // too close to the memtable switch to predict
      }
    } else if (c < 84) o.kind = O_FLUSH, o.tid = 0;
    else if (c < 91) { o.kind = O_COMPACT_RANGE; o.a = (int)r.below(r.chance(0.3) ? 6 : 3); o.tid = 0; }
    else if (c < 93) { o.kind = O_COMPACT; o.tid = 0; }
    else if (c == 97 || c == 98) { o.kind = O_WRITE; o.sync = r.chance(0.3); } // empty batch
    else if (c < 97 && nthreads == 1) { o.kind = O_REOPEN; o.tid = 0; if (r.chance(0.5)) { Config n = random_config(r); n.cmp = p.cfg.cmp; n.rlimit = p.cfg.rlimit; o.s = n.str(); } }
    else { o.kind = O_GET; char kb[48]; snprintf(kb, sizeof kb, "w%d/k%03d", o.tid, (int)r.below(nkeys)); o.key = kb; }
    p.ops.push_back(o);
  }
  p.seti("max_boundaries", bigc ? (g_thorough ? 300 : 70) : c13 ? (g_thorough ? 300 : 100) : g_thorough ? 1500 : sizeclass < 4 ? 400 : 260);
  return p;
}

void exec_crash(const Plan &p, RunOut *out) {
  begin_run(p, out);
  {
    Rec R; g_rec = &R; R.p = &p;
    DbOptions opt; R.opt = &opt;
    int nthreads = (int)p.geti("threads", 1);
    R.per_thread_ops.resize(nthreads);
    for (size_t i = 0; i < p.ops.size(); i++) {
      const Op &o = p.ops[i];
      int t = o.tid % nthreads;
      R.per_thread_ops[t].push_back((int)i);
      if (o.kind == O_WRITE && !o.ups.empty() && is_marker(o.ups[0].key) && !R.by_marker.count(o.ups[0].key)) {
        BatchRec b; b.tid = t; b.opidx = (int)i; b.sync = o.sync; b.ups = o.ups; b.marker = o.ups[0].key;
        R.by_marker[b.marker] = (int)R.batches.size();
        R.batches.push_back(b);
      }
    }
    simfs::start_recording(&R.journal, R.dir);
    opt.set(p.cfg, true);
    int rc = ldb_open(R.dir.c_str(), &opt.o, &R.db);
    if (rc != LDB_OK) violation("C05", "open_failed", "creating the database failed: %s", rcname(rc));
    else {
      std::vector<int> tids;
      for (int t = 1; t < nthreads; t++) tids.push_back(sim::spawn(writer_thread, (void *)(intptr_t)t));
      writer_thread((void *)(intptr_t)0);
      for (int t : tids) sim::join(t);
      if (R.db) { ldb_close(R.db); R.db = nullptr; }
      sim::drain();
    }
    simfs::stop_recording();
    size_t N = R.journal.e.size();
    count("journal_entries", N);
    bool had_sync = false, had_rotation = false;
    for (auto &b : R.batches) if (b.sync) had_sync = true;
    int logs = 0;
    for (auto &e : R.journal.e) if (e.t == simfs::J_CREATE && simfs::classify(e.a) == simfs::FC_LOG) logs++;
    had_rotation = logs >= 2;
    if (!failed()) decode_logs(R);
    if (!failed()) {
      // C13 on the recorded session itself: no file number used twice, no log unlinked before a version edit with a
      // higher log number has been written (this needs no crash at the right instant to show)
      FileMonitor mon; size_t pos = 0;
      for (size_t b : R.incarnations) { mon.scan(R.journal, &pos, {}, b); mon.created.clear(); }
      mon.scan(R.journal, &pos, {});
    }
    uint64_t images0 = out->counts["images"];
    if (!failed()) {
      Judge J(R, p);
      // boundary selection: all of them, or a stride sample that keeps everything next to a durability-relevant call
      std::vector<size_t> ks;
      size_t maxb = (size_t)p.geti("max_boundaries", 300);
      if (N + 1 <= maxb) for (size_t k = 0; k <= N; k++) ks.push_back(k);
      else {
        std::set<size_t> pick;
        for (size_t i = 0; i < N; i++) {
          simfs::JType t = R.journal.e[i].t;
          if (t == simfs::J_FSYNC || t == simfs::J_FSYNCDIR || t == simfs::J_RENAME || t == simfs::J_UNLINK || t == simfs::J_CREATE) { pick.insert(i); pick.insert(i + 1); }
        }
        Rng br(p.seed ^ 0xB0B0);
        while (pick.size() > maxb) { auto it = pick.begin(); std::advance(it, br.below(pick.size())); pick.erase(it); }
        while (pick.size() < maxb) pick.insert((size_t)br.below(N + 1));
        pick.insert(N);
        ks.assign(pick.begin(), pick.end());
      }
      Rng vr(p.seed ^ 0x1A6E5);
      string prop = p.params.count("prop") ? p.params.at("prop") : "";
      for (size_t k : ks) {
        if (failed()) break;
        size_t f = simfs::min_dircut(R.journal, k);
        bool interesting = k > 0 && (R.journal.e[k - 1].t == simfs::J_UNLINK || R.journal.e[k - 1].t == simfs::J_RENAME || R.journal.e[k - 1].t == simfs::J_FSYNC || R.journal.e[k - 1].t == simfs::J_FSYNCDIR);
        std::vector<ImageCase> cases;
        auto add = [&](bool kill, size_t dircut, int lp, const char *fam) { ImageCase c; c.kill = kill; c.family = fam; c.spec.k = k; c.spec.dircut = dircut; c.spec.lenpolicy = lp; c.spec.seed = vr.next(); cases.push_back(c); };
        bool want_kill = prop != "C02" || vr.chance(0.3);
        bool want_power = prop != "C03" || vr.chance(0.3);
        if (want_kill) add(true, k, simfs::L_WRITTEN, "kill");
        if (want_power) {
          int nv = interesting ? 6 : 2;
          int first = (int)vr.below(6);
          for (int v = 0; v < nv; v++) {
            switch ((first + v) % 6) {
              case 0: add(false, f, simfs::L_SYNCED, "power-minimal"); break;
              case 1: add(false, k, simfs::L_SYNCED, "power-dir-ahead"); break;
              case 2: add(false, f, simfs::L_WRITTEN, "power-data-ahead"); break;
              case 3: add(false, k, simfs::L_TORN_LAST, "power-torn-tail"); break;
              case 4: add(false, (size_t)vr.range(f, k), simfs::L_RANDOM, "power-mix"); break;
              case 5: add(false, k, simfs::L_TORN_ALIGNED, "power-torn-sector"); break;
            }
          }
        }
        for (auto &c : cases) { if (!J.check_image(c)) break; }
      }
      simfs::remove_tree("/sim/img");
    }
    out->nontrivial = had_sync && (had_rotation || out->probes.count("reopens")) && out->counts["images"] - images0 >= 50;
    if (had_rotation) probe("log_rotations");
    g_rec = nullptr;
  }
  end_run(out);
}
