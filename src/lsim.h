// Common definitions of the lcdb simulator harness: configuration space, plan
// language, reference model, violation reporting, helpers around the lcdb API.
#pragma once
#include "refdec.h"
#include "rng.h"
#include "sched.h"
#include "simfs.h"
#include <map>
#include <set>
#include <string>
#include <vector>
extern "C" {
#include <lcdb.h>
int ldb_test_compact_memtable(ldb_t *);
void ldb_test_compact_range(ldb_t *, int, const ldb_slice_t *, const ldb_slice_t *);
}

using std::string;

// ------------------------------------------------------------------ config
struct Config {
  size_t wbs = 65536, mfs = 1 << 20, block = 4096;
  int restart = 16, comp = 1, filter = 0 /*0 none 1 bloom10 2 bloom2*/, cache = 0 /*0 default 1 cap0 2 4KiB*/;
  int mof = 1000, mmap = 1, reuse = 0, paranoid = 0, cmp = 0 /*0 bytewise 1 reverse 2 length-first*/;
  int verify = 0, fillc = 1;
  int sep = 0;                   // 1: the custom comparators supply shortest_separator / short_successor callbacks
  long rlimit = 1024;
  string str() const;
  bool parse(const string &s);
};
Config random_config(Rng &r);

string sched_str(const sim::SchedConfig &s);
bool sched_parse(const string &s, sim::SchedConfig *out);
sim::SchedConfig random_sched(Rng &r, bool multi);

// ------------------------------------------------------------------ plan
enum OpKind {
  O_PUT, O_DEL, O_WRITE, O_GET, O_HAS, O_SNAP, O_RELEASE, O_ITER_NEW, O_ITER_OP, O_ITER_FREE, O_FLUSH,
  O_COMPACT_RANGE, O_COMPACT, O_APPROX, O_PROPERTY, O_REOPEN, O_BACKUP, O_KILL_RESTART, O_SWEEP,
  O_OPEN2, O_LOCK_PROBE, O_DESTROY, O_REPAIR, O_COPY, O_CLOSE, O_OPEN, O_NKINDS
};
extern const char *opkind_name[];
enum IterOp { I_FIRST, I_LAST, I_SEEK, I_SEEK_GE, I_SEEK_GT, I_SEEK_LE, I_SEEK_LT, I_NEXT, I_PREV, I_NOPS };
extern const char *iterop_name[];

struct Upd { bool del = false; string key; uint64_t tag = 0; uint32_t len = 0; int fill = 0; };
struct Op {
  int tid = 0, kind = O_PUT;
  string key, key2;
  uint64_t tag = 0; uint32_t len = 0; int fill = 0, sync = 0;
  int a = -1, b = -1;            // snapshot index / iterator index / level ; iterator op / flags
  std::vector<Upd> ups;          // O_WRITE
  string s;                      // free-form argument
  string str() const;
  bool parse(const string &line);
};
struct Plan {
  string mode;
  uint64_t seed = 0;
  Config cfg;
  sim::SchedConfig sc;
  std::map<string, string> params;
  std::vector<Op> ops;
  string expect;                 // violation class the replay is expected to reproduce
  string str() const;
  bool parse(const string &text, string *err);
  uint64_t hash() const;
  long geti(const string &k, long dflt) const;
  void seti(const string &k, long v);
};
string hexenc(const string &s);
bool hexdec(const string &h, string *out);
string printable(const string &s, size_t max = 40);

// value bytes are a pure function of (tag, len, fill); every tag is used once
string mkval(uint64_t tag, uint32_t len, int fill);
std::vector<string> make_keyspace(Rng &r, int n);

// ------------------------------------------------------------------ model
struct KeyCmp {
  int type = 0;
  int cmp(const string &a, const string &b) const;
  bool operator()(const string &a, const string &b) const { return cmp(a, b) < 0; }
};
typedef std::map<string, string, KeyCmp> Model;
const ldb_comparator_t *lcdb_comparator(int type, int with_callbacks = 0);

// ------------------------------------------------------------------ run state
struct Violation { string prop, cls, detail; };
struct RunOut {
  std::vector<Violation> viol;
  std::vector<Violation> known;          // violations matching an open known finding (do not stop the run)
  std::map<string, uint64_t> probes;     // reach probes (counts)
  std::map<string, uint64_t> counts;     // evaluation counters (comparisons, images, ...)
  uint64_t event_hash = 0;
  std::set<uint64_t> shapes;             // distinct LSM shapes seen (files per level)
  bool nontrivial = false;
  string note;
};
extern RunOut *g_out;                    // current run
extern bool g_light;                     // sanitizer workers in the quick tier: generators avoid the multi-megabyte styles
extern bool g_thorough;                  // thorough tier: generators use deeper bounds
// open known findings handed to the worker: ("<prop>.<class>", detail regex).  A violation that matches is recorded
// in RunOut::known and does not make failed() true, so the rest of the run is still checked.
extern std::vector<std::pair<string, string>> g_known;
void violation(const char *prop, const char *cls, const char *fmt, ...) __attribute__((format(printf, 3, 4)));
inline bool failed() { return !g_out->viol.empty(); }
inline void probe(const char *name, uint64_t n = 1) { g_out->probes[name] += n; }
inline void count(const char *name, uint64_t n = 1) { g_out->counts[name] += n; }

// ------------------------------------------------------------------ lcdb helpers
struct DbOptions {               // owns the objects an ldb_dbopt_t points to
  ldb_dbopt_t o;
  ldb_lru_t *cache = nullptr;
  ldb_bloom_t *bloom = nullptr;
  ldb_logger_t *logger = nullptr;
  DbOptions();
  ~DbOptions();
  void set(const Config &c, bool create_if_missing = true);
  bool default_info_log = false;   // true: pass info_log = NULL so that lcdb opens and rotates its own LOG / LOG.old
  DbOptions(const DbOptions &) = delete;
  DbOptions &operator=(const DbOptions &) = delete;
};
inline ldb_slice_t S(const string &s) { return ldb_slice(s.data(), s.size()); }
inline string str_of(const ldb_slice_t &s) { return string((const char *)s.data, s.size); }
int db_get(ldb_t *db, const string &k, string *v, const ldb_snapshot_t *snap, int verify, int fillc);
int db_write(ldb_t *db, const std::vector<Upd> &ups, int sync);
int db_write_mode(ldb_t *db, const std::vector<Upd> &ups, int sync, int mode); // 1 append, 2 same batch twice, 3 reuse after reset, 4 iterate first
// full forward scan; returns iterator status
int db_scan(ldb_t *db, std::vector<std::pair<string, string>> *out, const ldb_snapshot_t *snap = nullptr, int verify = 0);
int db_scan_back(ldb_t *db, std::vector<std::pair<string, string>> *out, const ldb_snapshot_t *snap = nullptr, int verify = 0);
string db_sstables(ldb_t *db);
const char *rcname(int rc);

struct SstFile { int level; uint64_t number, size; string smallest_user, largest_user; uint64_t smallest_seq, largest_seq; int smallest_type, largest_type; };
bool parse_sstables(const string &text, std::vector<SstFile> *out);
string table_path(const string &db, uint64_t number);
bool parse_db_filename(const string &name, uint64_t *number, int *fclass);

// ------------------------------------------------------------------ modes
typedef Plan (*gen_fn)(uint64_t seed, const string &prop);
typedef void (*exec_fn)(const Plan &p, RunOut *out);
struct Mode { const char *name; gen_fn gen; exec_fn exec; };
const Mode *find_mode(const string &name);
void begin_run(const Plan &p, RunOut *out);   // resets simfs, scheduler, seeds
void end_run(RunOut *out);                    // drains stragglers, collects hashes

Plan gen_model(uint64_t seed, const string &prop);
void exec_model(const Plan &p, RunOut *out);
