// repair-mode (C19): a seeded history builds an arbitrary level layout (including
// files whose numbering does not follow data age), the metadata is lost or
// damaged, ldb_repair + ldb_open run, and the result is compared with the newest
// version per key found in the surviving table and log files by independent
// decoders.  Follow-up writes must win, persist, and use fresh numbers.
#include "lsim.h"
#include "monitors.h"
#include <algorithm>
#include <stdio.h>
#include <string.h>

namespace {

struct Ver { uint64_t seq = 0; bool del = false; string val; string src; };

// newest version per user key over every surviving table and log file (independent decoders)
bool durable_model(const string &dir, const KeyCmp &kc, std::map<string, Ver, KeyCmp> *out, std::map<string, std::map<uint64_t, Ver>> *all, uint64_t *max_seq, uint64_t *max_num, string *err, bool tolerate_partial) {
  *max_seq = 0; *max_num = 0;
  for (auto &name : simfs::list_dir(dir)) {
    uint64_t num; int fc;
    if (!parse_db_filename(name, &num, &fc)) continue;
    if (fc == simfs::FC_TABLE || fc == simfs::FC_LOG) *max_num = std::max(*max_num, num);
    string data;
    if (!simfs::read_file(dir + "/" + name, &data)) continue;
    auto note = [&](const string &user, uint64_t seq, bool del, const string &val) {
      Ver v; v.seq = seq; v.del = del; v.val = val; v.src = name;
      (*all)[user][seq] = v;
      *max_seq = std::max(*max_seq, seq);
      auto it = out->find(user);
      if (it == out->end() || it->second.seq < seq) (*out)[user] = v;
    };
    if (fc == simfs::FC_TABLE) {
      ref::TableDecode td = ref::table_decode(data);
      if (!td.ok) { if (tolerate_partial) { probe("undecodable_table_skipped"); continue; } *err = "independent reader cannot decode surviving table " + name + ": " + td.error; return false; }
      for (auto &e : td.entries) { ref::IKey k; if (!ref::ikey_parse(e.ikey, &k)) { *err = "bad internal key in " + name; return false; } note(k.user, k.seq, k.type == 0, e.value); }
    } else if (fc == simfs::FC_LOG) {
      ref::LogDecode ld = ref::log_decode(data);
      for (auto &rec : ld.records) {
        ref::Batch b;
        if (!ref::batch_decode(rec.data, &b)) continue;
        for (size_t i = 0; i < b.ops.size(); i++) note(b.ops[i].key, b.seq + i, b.ops[i].del, b.ops[i].value);
      }
    }
  }
  (void)kc;
  return true;
}

} // namespace

Plan gen_repair(uint64_t seed, const string &prop) {
  Rng r(mix64(seed, 0x4E9A14));
  Plan p;
  p.mode = "repair"; p.seed = seed;
  p.cfg = random_config(r);
  p.cfg.wbs = 65536; // reuse_logs stays random: with it the first descriptor (MANIFEST-000001) lives on, and repair writes one of that name
  if (r.chance(0.7)) p.cfg.cmp = 0;
  p.sc = random_sched(r, false);
  p.params["prop"] = prop;
  int nops = r.chance(0.35) ? (int)r.range(5, 14) : (int)r.range(15, 70);
  int nkeys = (int)r.range(2, 14);
  uint64_t tag = 1;
  bool edge_keys = r.chance(0.5); // the empty key and an all-0xff key take the place of two ordinary ones
  for (int i = 0; i < nops; i++) {
    Op o; int c = (int)r.below(100);
    if (c < 55) {
      o.kind = O_WRITE;
      int n = (int)r.range(1, 4);
      for (int q = 0; q < n; q++) { Upd u; char kb[32]; int ki = (int)r.below(nkeys); snprintf(kb, sizeof kb, "rk%02d", ki); u.key = kb; if (edge_keys && ki == 0) u.key = ""; if (edge_keys && ki == 1) u.key = string(3, '\xff'); u.del = r.chance(0.2); if (!u.del) { u.tag = tag++; u.fill = (int)r.below(2); u.len = r.chance(0.9) ? (uint32_t)r.range(10, 900) : (uint32_t)r.range(2000, 30000); } o.ups.push_back(u); }
    } else if (c < 75) o.kind = O_FLUSH;
    else if (c < 95) { o.kind = O_COMPACT_RANGE; o.a = (int)r.below(r.chance(0.3) ? 6 : 4); }
    else o.kind = O_REOPEN;
    p.ops.push_back(o);
  }
  p.seti("loss", (long)r.below(6));
  p.seti("kill", r.chance(0.35));
  if (r.chance(0.4)) { Config n = random_config(r); string enc = n.str(); for (auto &ch : enc) if (ch == ' ') ch = ','; p.params["repair_cfg"] = enc; }
  p.seti("twice", r.chance(0.2)); // ldb_repair run twice in a row (the second one finds the first one's descriptor)
  p.seti("followups", (long)r.range(1, 4));
  return p;
}

void exec_repair(const Plan &p, RunOut *out) {
  begin_run(p, out);
  {
    const string dir = "/sim/db";
    KeyCmp kc; kc.type = p.cfg.cmp;
    std::set<string> ks;
    {
      DbOptions opt; opt.set(p.cfg, true);
      ldb_t *db = nullptr;
      int rc = ldb_open(dir.c_str(), &opt.o, &db);
      if (rc != LDB_OK) violation("C19", "build_failed", "open failed: %s", rcname(rc));
      for (size_t i = 0; i < p.ops.size() && db && !failed(); i++) {
        const Op &o = p.ops[i];
        if (o.kind == O_WRITE) { rc = db_write(db, o.ups, 0); if (rc) violation("C19", "build_failed", "write failed: %s", rcname(rc)); for (auto &u : o.ups) ks.insert(u.key); }
        else if (o.kind == O_FLUSH) ldb_test_compact_memtable(db);
        else if (o.kind == O_COMPACT_RANGE) ldb_test_compact_range(db, o.a < 0 ? 0 : o.a > 5 ? 5 : o.a, NULL, NULL);
        else if (o.kind == O_REOPEN) { sim::drain(); ldb_close(db); db = nullptr; sim::drain(); opt.set(p.cfg, true); rc = ldb_open(dir.c_str(), &opt.o, &db); if (rc) { violation("C19", "build_failed", "reopen failed: %s", rcname(rc)); db = nullptr; } }
      }
      if (db && p.geti("kill", 0)) {
        // the database is not closed cleanly: repair works on the byte-exact image a process kill leaves behind
        // (the background worker may be part-way through a flush or compaction: half-written and orphan tables)
        simfs::copy_tree(dir, dir + "_k");
        ldb_close(db); db = nullptr; sim::drain();
        simfs::remove_tree(dir);
        simfs::copy_tree(dir + "_k", dir);
        simfs::remove_tree(dir + "_k");
        probe("crash:kill_image");
      }
      if (db) { sim::drain(); ldb_close(db); sim::drain(); }
    }
    // ---- metadata loss / damage
    long loss = p.geti("loss", 0);
    static const char *loss_name[] = {"CURRENT removed", "MANIFEST removed", "CURRENT and MANIFEST removed", "MANIFEST truncated", "MANIFEST bit-damaged", "metadata intact"};
    if (!failed()) {
      Rng r(p.seed ^ 0x1055);
      std::vector<string> manifests;
      for (auto &n : simfs::list_dir(dir)) if (simfs::classify(dir + "/" + n) == simfs::FC_MANIFEST) manifests.push_back(n);
      if (loss == 0 || loss == 2) simfs::remove_file(dir + "/CURRENT");
      if (loss == 1 || loss == 2) for (auto &m : manifests) simfs::remove_file(dir + "/" + m);
      if ((loss == 3 || loss == 4) && !manifests.empty()) {
        string d; simfs::read_file(dir + "/" + manifests[0], &d);
        if (!d.empty()) { if (loss == 3) d.resize((size_t)r.below(d.size())); else d[r.below(d.size())] ^= (char)(1 << r.below(8)); simfs::write_file(dir + "/" + manifests[0], d); }
      }
      simfs::remove_file(dir + "/LOCK");
      probe((string("damage:metadata:") + loss_name[loss]).c_str());
    }
    // ---- what survives, according to independent decoders
    std::map<string, Ver, KeyCmp> want(kc);
    std::map<string, std::map<uint64_t, Ver>> all;
    uint64_t max_seq = 0, max_num = 0;
    bool multi_file_versions = false;
    if (!failed()) {
      string err;
      if (!durable_model(dir, kc, &want, &all, &max_seq, &max_num, &err, p.geti("kill", 0) != 0)) violation("C19", "survivor_decode", "%s", err.c_str());
      for (auto &kv : all) { std::set<string> files; for (auto &v : kv.second) files.insert(v.second.src); if (files.size() >= 2) multi_file_versions = true; }
    }
    simfs::Journal journal;
    size_t jfrom = 0; // journal position at which the (last) repair starts
    if (!failed()) {
      // the process that repairs need not use the writer's options (block size, compression, filter policy, caches...)
      Config rc_cfg = p.cfg;
      if (p.params.count("repair_cfg")) { Config n; string enc = p.params.at("repair_cfg"); for (auto &ch : enc) if (ch == ',') ch = ' '; if (n.parse(enc)) { n.cmp = p.cfg.cmp; n.rlimit = p.cfg.rlimit; rc_cfg = n; probe("repair_under_other_options"); } }
      DbOptions opt; opt.set(rc_cfg, false);
      simfs::start_recording(&journal, dir);
      int rc = ldb_repair(dir.c_str(), &opt.o);
      count("repairs");
      if (rc != LDB_OK) violation("C19", "repair_failed", "ldb_repair fails with %s (%s)", rcname(rc), loss_name[loss]);
      if (!failed() && p.geti("twice", 0)) {
        // "above everything already on disk" refers to the directory the second repair finds: the first one has moved
        // logs and old descriptors to lost/, which is not part of the database any more
        max_num = 0;
        for (auto &n : simfs::list_dir(dir)) { uint64_t num; int fc; if (parse_db_filename(n, &num, &fc)) max_num = std::max(max_num, num); }
        jfrom = journal.e.size();
        rc = ldb_repair(dir.c_str(), &opt.o);
        probe("repaired_twice");
        if (rc != LDB_OK) violation("C19", "repair_failed", "a second ldb_repair right after the first fails with %s (%s)", rcname(rc), loss_name[loss]);
      }
      ldb_t *db = nullptr;
      if (!failed()) { rc = ldb_open(dir.c_str(), &opt.o, &db); if (rc != LDB_OK) { violation("C19", "open_after_repair_failed", "ldb_open after a successful repair fails with %s (%s)", rcname(rc), loss_name[loss]); db = nullptr; } }
      if (db) {
        // scans first (their answer is used to classify a wrong point lookup)
        std::vector<std::pair<string, string>> fw, bw;
        int s1 = db_scan(db, &fw, nullptr, 1), s2 = db_scan_back(db, &bw, nullptr, 1);
        std::reverse(bw.begin(), bw.end());
        std::map<string, string, KeyCmp> live(kc);
        for (auto &kv : want) if (!kv.second.del) live[kv.first] = kv.second.val;
        std::vector<std::pair<string, string>> livev(live.begin(), live.end());
        bool scan_ok = s1 == LDB_OK && fw == livev;
        if (s1 != LDB_OK || s2 != LDB_OK) violation("C19", "scan_status", "scan after repair reports %s/%s", rcname(s1), rcname(s2));
        else if (fw != livev) {
          string why = "entries differ";
          std::map<string, string, KeyCmp> got(fw.begin(), fw.end(), kc);
          for (auto &kv : live) { auto it = got.find(kv.first); if (it == got.end()) { why = "key " + printable(kv.first) + " (newest surviving version: sequence " + std::to_string(want[kv.first].seq) + " in " + want[kv.first].src + ") is missing"; break; } if (it->second != kv.second) { why = "key " + printable(kv.first) + " shows an older or foreign value"; break; } }
          if (why == "entries differ") for (auto &kv : got) if (!live.count(kv.first)) { why = "key " + printable(kv.first) + " is returned although its newest surviving version is a deletion"; break; }
          violation("C19", "scan_wrong", "forward scan after repair (%s): %s (%zu entries, expected %zu)", loss_name[loss], why.c_str(), fw.size(), livev.size());
        } else if (bw != fw) violation("C19", "scan_wrong", "backward scan after repair differs from the forward scan");
        for (auto &k : ks) {
          if (failed()) break;
          string v;
          int grc = db_get(db, k, &v, nullptr, 1, 1);
          count("gets_after_repair");
          auto it = live.find(k);
          bool ok = (it == live.end()) ? grc == LDB_NOTFOUND : (grc == LDB_OK && v == it->second);
          if (ok) continue;
          // classify: an older surviving version returned while the iterator is right?
          bool older = false; string older_src; uint64_t older_seq = 0;
          if (grc == LDB_OK) for (auto &vv : all[k]) if (!vv.second.del && vv.second.val == v && vv.first < want[k].seq) { older = true; older_src = vv.second.src; older_seq = vv.first; }
          if (grc == LDB_NOTFOUND && it != live.end()) for (auto &vv : all[k]) if (vv.second.del && vv.first < want[k].seq) { older = true; older_src = vv.second.src; older_seq = vv.first; }
          if (older && scan_ok)
            violation("C19", "get_older_version", "get(%s) after repair returns the version with sequence %llu from %s although %s holds the newer sequence %llu; the forward scan returns the newest version (level-0 lookup order follows file numbers, which do not follow data age here)", printable(k).c_str(),
                      (unsigned long long)older_seq, older_src.c_str(), want[k].src.c_str(), (unsigned long long)want[k].seq);
          else
            violation("C19", "get_wrong", "get(%s) after repair (%s) returns %s, the newest surviving version is %s", printable(k).c_str(), loss_name[loss], grc == LDB_OK ? printable(v).c_str() : rcname(grc), it == live.end() ? "absent/deleted" : printable(it->second).c_str());
        }
        // ---- follow-up writes take precedence, persist, and use fresh numbers
        std::map<string, string, KeyCmp> after = live;
        if (!failed()) {
          Rng r(p.seed ^ 0xF0110);
          int n = (int)p.geti("followups", 2);
          std::vector<string> kv(ks.begin(), ks.end());
          uint64_t tag = 800000000;
          for (int i = 0; i < n && !kv.empty(); i++) {
            Upd u; u.key = kv[r.below(kv.size())]; u.del = r.chance(0.3); u.tag = tag++; u.len = 40;
            int wrc = db_write(db, {u}, 0);
            if (wrc != LDB_OK) { violation("C19", "followup_failed", "write after repair fails: %s", rcname(wrc)); break; }
            if (u.del) after.erase(u.key); else after[u.key] = mkval(u.tag, u.len, u.fill);
          }
          if (r.chance(0.5)) ldb_test_compact_memtable(db);
          for (auto &k : ks) { if (failed()) break; string v; int grc = db_get(db, k, &v, nullptr, 1, 1); auto it = after.find(k); bool ok = (it == after.end()) ? grc == LDB_NOTFOUND : (grc == LDB_OK && v == it->second);
            if (!ok && !(g_out->viol.size())) { bool touched = (it == after.end()) != (live.find(k) == live.end()) || (it != after.end() && live.count(k) && live[k] != it->second);
              if (touched) violation("C19", "followup_shadowed", "after repair, a new write to %s does not take precedence: get returns %s", printable(k).c_str(), grc == LDB_OK ? printable(v).c_str() : rcname(grc)); } }
        }
        sim::drain();
        ldb_close(db); db = nullptr;
        sim::drain();
        if (!failed()) {
          rc = ldb_open(dir.c_str(), &opt.o, &db);
          if (rc != LDB_OK) violation("C19", "reopen_failed", "reopen after repair + writes fails: %s", rcname(rc));
          else {
            std::vector<std::pair<string, string>> rows;
            db_scan(db, &rows, nullptr, 1);
            std::vector<std::pair<string, string>> afterv(after.begin(), after.end());
            if (rows != afterv) violation("C19", "followup_lost", "after repair, follow-up writes and a reopen the scan shows %zu entries, expected %zu", rows.size(), afterv.size());
            sim::drain(); ldb_close(db); sim::drain();
          }
        }
      }
      simfs::stop_recording();
      // numbers continue above everything already on disk
      if (!failed()) {
        for (size_t ji = jfrom; ji < journal.e.size(); ji++) {
          const simfs::JEntry &e = journal.e[ji];
          if (e.t != simfs::J_CREATE) continue;
          if (e.a.find("/lost/") != string::npos) continue;
          uint64_t num; int fc;
          size_t sl = e.a.rfind('/');
          if (!parse_db_filename(e.a.substr(sl + 1), &num, &fc)) continue;
          if ((fc == simfs::FC_TABLE || fc == simfs::FC_LOG) && num <= max_num) { violation("C19", "number_not_above_disk", "%s is created after repair although files up to number %llu were already on disk", e.a.substr(sl + 1).c_str(), (unsigned long long)max_num); break; }
        }
        // sequence numbers of new writes are above every surviving sequence
        for (auto &d : journal.data) {
          string path;
          for (auto &e : journal.e) if (e.ino == d.first && e.t == simfs::J_CREATE) path = e.a;
          if (path.empty() || simfs::classify(path) != simfs::FC_LOG) continue;
          ref::LogDecode ld = ref::log_decode(d.second);
          for (auto &rec : ld.records) { ref::Batch b; if (ref::batch_decode(rec.data, &b) && b.seq <= max_seq) { violation("C19", "sequence_not_above_disk", "a write after repair is logged with sequence %llu although sequence %llu survives on disk", (unsigned long long)b.seq, (unsigned long long)max_seq); break; } }
        }
      }
    }
    out->nontrivial = multi_file_versions && out->counts["gets_after_repair"] > 0;
  }
  end_run(out);
}
