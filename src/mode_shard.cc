// shard-mode: 2..4 caller threads share one handle; every thread owns a key range
// that only it writes.  For its own range a thread therefore has an exact sequential
// model at every instant - of the current contents, of every snapshot it took and of
// every iterator it created - no matter what the other threads, the flushes and the
// compactions they trigger are doing meanwhile.  This gives long multi-threaded runs
// (hundreds of operations per thread) with exact oracles, which the linearizability
// search of conc-mode cannot afford:
//   C01  get of an own key equals the thread's model
//   C06  reads through a snapshot equal the model copy taken with it, however long it is held
//   C07  an iterator held across other operations shows exactly the creation-time view of the
//        own range, forwards, backwards and after seeks
//   C14  the level structure at the quiescent point after the run
//   C03  a clean reopen and a process-kill image both hold the union of the models
#include "lsim.h"
#include "monitors.h"
#include <algorithm>
#include <errno.h>
#include <stdio.h>
#include <string.h>

namespace {

const int NS = 3, NI = 2;
typedef std::map<string, string> Contents;

struct Th {
  int tid = 0;
  string lo, hi;                       // own range: lo <= key < hi (bytewise)
  Contents model;
  struct Sn { const ldb_snapshot_t *s = nullptr; Contents m; } snaps[NS];
  struct It { ldb_iter_t *it = nullptr; Contents view; int snapslot = -1; } its[NI];
};

struct Shard {
  const Plan *p = nullptr;
  ldb_t *db = nullptr;
  std::vector<Th> th;
  std::vector<std::vector<int>> per_thread;
};
Shard *g_s = nullptr;

bool own(const Th &t, const string &k) { return k >= t.lo && k < t.hi; }

void check_get(Shard &S_, Th &t, const string &k, const Contents &m, const ldb_snapshot_t *s, const char *prop, const char *what) {
  string v;
  int rc = db_get(S_.db, k, &v, s, S_.p->cfg.verify, S_.p->cfg.fillc);
  count("get_checks");
  if (rc == ENOENT) { violation("C13", "table_enoent", "thread %d %s get(%s) fails with ENOENT: a table file named by a live version is gone", t.tid, what, printable(k).c_str()); return; }
  auto f = m.find(k);
  if (f == m.end()) {
    if (rc != LDB_NOTFOUND) violation(prop, "get_mismatch", "thread %d %s get(%s): expected NOTFOUND, got %s %s", t.tid, what, printable(k).c_str(), rcname(rc), rc == 0 ? printable(v).c_str() : "");
  } else if (rc != LDB_OK) violation(prop, "get_mismatch", "thread %d %s get(%s): expected %s, got %s", t.tid, what, printable(k).c_str(), printable(f->second).c_str(), rcname(rc));
  else if (v != f->second) violation(prop, "get_mismatch", "thread %d %s get(%s): expected %s, got %s (only this thread writes the key)", t.tid, what, printable(k).c_str(), printable(f->second).c_str(), printable(v).c_str());
}

// forward scan of the own range through it: seek(lo), next while inside
void scan_fwd(Th &t, ldb_iter_t *it, const Contents &view, const char *prop, const char *what) {
  ldb_slice_t lo = S(t.lo);
  ldb_iter_seek(it, &lo);
  auto m = view.begin();
  size_t n = 0;
  while (ldb_iter_valid(it)) {
    string k = str_of(ldb_iter_key(it));
    if (!own(t, k)) break;
    string v = str_of(ldb_iter_value(it));
    if (m == view.end()) { violation(prop, "iter_extra", "thread %d %s forward scan: iterator yields %s after the last key of the expected view (%zu entries)", t.tid, what, printable(k).c_str(), view.size()); return; }
    if (k != m->first) { violation(prop, "iter_key", "thread %d %s forward scan: entry %zu is %s, expected %s", t.tid, what, n, printable(k).c_str(), printable(m->first).c_str()); return; }
    if (v != m->second) { violation(prop, "iter_value", "thread %d %s forward scan: %s has value %s, expected %s", t.tid, what, printable(k).c_str(), printable(v).c_str(), printable(m->second).c_str()); return; }
    ++m; n++;
    ldb_iter_next(it);
  }
  int st = ldb_iter_status(it);
  if (st != LDB_OK) { violation(st == ENOENT ? "C13" : prop, st == ENOENT ? "table_enoent" : "iter_status", "thread %d %s forward scan: status %s", t.tid, what, rcname(st)); return; }
  if (m != view.end()) violation(prop, "iter_missing", "thread %d %s forward scan ends after %zu entries; expected %s next (%zu in the view)", t.tid, what, n, printable(m->first).c_str(), view.size());
  count("range_scans");
}

void scan_bwd(Th &t, ldb_iter_t *it, const Contents &view, const char *prop, const char *what) {
  ldb_slice_t hi = S(t.hi);
  ldb_iter_seek_lt(it, &hi);
  auto m = view.rbegin();
  size_t n = 0;
  while (ldb_iter_valid(it)) {
    string k = str_of(ldb_iter_key(it));
    if (!own(t, k)) break;
    string v = str_of(ldb_iter_value(it));
    if (m == view.rend()) { violation(prop, "iter_extra", "thread %d %s backward scan: iterator yields %s before the first key of the expected view", t.tid, what, printable(k).c_str()); return; }
    if (k != m->first) { violation(prop, "iter_key", "thread %d %s backward scan: entry %zu from the end is %s, expected %s", t.tid, what, n, printable(k).c_str(), printable(m->first).c_str()); return; }
    if (v != m->second) { violation(prop, "iter_value", "thread %d %s backward scan: %s has value %s, expected %s", t.tid, what, printable(k).c_str(), printable(v).c_str(), printable(m->second).c_str()); return; }
    ++m; n++;
    ldb_iter_prev(it);
  }
  int st = ldb_iter_status(it);
  if (st != LDB_OK) { violation(st == ENOENT ? "C13" : prop, st == ENOENT ? "table_enoent" : "iter_status", "thread %d %s backward scan: status %s", t.tid, what, rcname(st)); return; }
  if (m != view.rend()) violation(prop, "iter_missing", "thread %d %s backward scan ends after %zu entries; expected %s next", t.tid, what, n, printable(m->first).c_str());
  count("range_scans");
}

// seek to a key of the own range, then a few steps in one direction, then back: the cursor model inside the range
void seek_steps(Th &t, ldb_iter_t *it, const Contents &view, const string &target, int steps, bool backwards, const char *prop, const char *what) {
  ldb_slice_t tk = S(target);
  ldb_iter_seek(it, &tk);
  auto m = view.lower_bound(target);
  for (int i = 0; i <= steps; i++) {
    if (m == view.end()) return; // beyond the own range: whatever the iterator shows belongs to somebody else
    if (!ldb_iter_valid(it)) { violation(prop, "iter_missing", "thread %d %s seek(%s)+%d %s: iterator invalid, expected %s", t.tid, what, printable(target).c_str(), i, backwards ? "prev" : "next", printable(m->first).c_str()); return; }
    string k = str_of(ldb_iter_key(it)), v = str_of(ldb_iter_value(it));
    if (k != m->first || v != m->second) { violation(prop, k != m->first ? "iter_key" : "iter_value", "thread %d %s seek(%s)+%d %s: at %s=%s, expected %s=%s", t.tid, what, printable(target).c_str(), i, backwards ? "prev" : "next", printable(k).c_str(), printable(v).c_str(), printable(m->first).c_str(), printable(m->second).c_str()); return; }
    if (i == steps) break;
    if (backwards) { if (m == view.begin()) return; --m; ldb_iter_prev(it); }
    else { ++m; ldb_iter_next(it); }
  }
  count("seek_step_checks");
}

void shard_thread(void *arg) {
  int tid = (int)(intptr_t)arg;
  Shard &S_ = *g_s;
  Th &t = S_.th[tid];
  const Config &cfg = S_.p->cfg;
  for (int oi : S_.per_thread[tid]) {
    if (failed()) break;
    const Op &o = S_.p->ops[oi];
    simfs::set_current_op(oi);
    switch (o.kind) {
      case O_PUT: {
        Upd u; u.key = o.key; u.tag = o.tag; u.len = o.len; u.fill = o.fill;
        int rc = db_write(S_.db, {u}, o.sync);
        if (rc != LDB_OK) { violation("C01", "write_failed", "put fails: %s", rcname(rc)); break; }
        t.model[o.key] = mkval(o.tag, o.len, o.fill);
        break;
      }
      case O_DEL: {
        Upd u; u.key = o.key; u.del = true;
        int rc = db_write(S_.db, {u}, o.sync);
        if (rc != LDB_OK) { violation("C01", "write_failed", "delete fails: %s", rcname(rc)); break; }
        t.model.erase(o.key);
        break;
      }
      case O_WRITE: {
        int rc = db_write(S_.db, o.ups, o.sync);
        if (rc != LDB_OK) { violation("C01", "write_failed", "write fails: %s", rcname(rc)); break; }
        for (auto &u : o.ups) { if (u.del) t.model.erase(u.key); else t.model[u.key] = mkval(u.tag, u.len, u.fill); }
        break;
      }
      case O_GET:
        if (o.a >= 0 && o.a < NS) { if (t.snaps[o.a].s) check_get(S_, t, o.key, t.snaps[o.a].m, t.snaps[o.a].s, "C06", "snapshot"); }
        else check_get(S_, t, o.key, t.model, nullptr, "C01", "current");
        break;
      case O_SNAP:
        if (o.a >= 0 && o.a < NS && !t.snaps[o.a].s) { t.snaps[o.a].s = ldb_snapshot(S_.db); t.snaps[o.a].m = t.model; probe("snapshots_taken"); }
        break;
      case O_RELEASE:
        if (o.a >= 0 && o.a < NS && t.snaps[o.a].s) {
          bool used = false;
          for (auto &I : t.its) if (I.it && I.snapslot == o.a) used = true;
          if (used) break;
          // last look through it before it goes: the whole own range
          ldb_readopt_t ro = *ldb_iteropt_default; ro.snapshot = t.snaps[o.a].s; ro.verify_checksums = cfg.verify; ro.fill_cache = cfg.fillc;
          ldb_iter_t *it = ldb_iterator(S_.db, &ro);
          scan_fwd(t, it, t.snaps[o.a].m, "C06", "snapshot (before release)");
          ldb_iter_destroy(it);
          ldb_release(S_.db, t.snaps[o.a].s); t.snaps[o.a].s = nullptr; t.snaps[o.a].m.clear();
        }
        break;
      case O_ITER_NEW:
        if (o.a >= 0 && o.a < NI && !t.its[o.a].it) {
          Th::It &I = t.its[o.a];
          ldb_readopt_t ro = *ldb_iteropt_default; ro.verify_checksums = cfg.verify; ro.fill_cache = cfg.fillc;
          I.snapslot = -1; I.view = t.model;
          if (o.b >= 0 && o.b < NS && t.snaps[o.b].s) { ro.snapshot = t.snaps[o.b].s; I.snapslot = o.b; I.view = t.snaps[o.b].m; }
          I.it = ldb_iterator(S_.db, &ro);
          probe("iterators_created");
        }
        break;
      case O_ITER_OP:
        if (o.a >= 0 && o.a < NI && t.its[o.a].it) {
          Th::It &I = t.its[o.a];
          const char *prop = I.snapslot >= 0 ? "C06" : "C07";
          if (o.b == 0) scan_fwd(t, I.it, I.view, prop, "held iterator");
          else if (o.b == 1) scan_bwd(t, I.it, I.view, prop, "held iterator");
          else seek_steps(t, I.it, I.view, o.key, (int)(o.tag % 5), o.b == 3, prop, "held iterator");
        }
        break;
      case O_ITER_FREE:
        if (o.a >= 0 && o.a < NI && t.its[o.a].it) { ldb_iter_destroy(t.its[o.a].it); t.its[o.a].it = nullptr; t.its[o.a].view.clear(); }
        break;
      case O_FLUSH: ldb_test_compact_memtable(S_.db); probe("flush_calls"); break;
      case O_COMPACT_RANGE: {
        if (o.b == 1) { ldb_slice_t b = S(o.key), e = S(o.key2); ldb_test_compact_range(S_.db, o.a < 0 ? 0 : o.a, &b, &e); }
        else ldb_test_compact_range(S_.db, o.a < 0 ? 0 : o.a, NULL, NULL);
        probe("compact_range_calls");
        break;
      }
      case O_COMPACT: {
        if (o.b >= 1) { ldb_slice_t b = S(t.lo), e = S(t.hi); ldb_compact(S_.db, o.b == 3 ? NULL : &b, o.b == 2 ? NULL : &e); } else ldb_compact(S_.db, NULL, NULL);
        probe("compact_calls");
        break;
      }
      case O_SWEEP: {
        // fresh iterator over the own range, both directions, plus every own key by get
        ldb_readopt_t ro = *ldb_iteropt_default; ro.verify_checksums = cfg.verify; ro.fill_cache = cfg.fillc;
        ldb_iter_t *it = ldb_iterator(S_.db, &ro);
        // the iterator's view is the model at creation: nobody else writes these keys
        Contents view = t.model;
        scan_fwd(t, it, view, "C07", "fresh iterator");
        if (!failed()) scan_bwd(t, it, view, "C07", "fresh iterator");
        ldb_iter_destroy(it);
        break;
      }
      default: break;
    }
  }
  // leave nothing behind
  for (auto &I : t.its) if (I.it) { if (!failed()) scan_fwd(t, I.it, I.view, I.snapslot >= 0 ? "C06" : "C07", "held iterator (end of thread)"); ldb_iter_destroy(I.it); I.it = nullptr; }
  for (auto &s : t.snaps) if (s.s) { if (!failed()) for (auto &kv : s.m) { check_get(S_, t, kv.first, s.m, s.s, "C06", "snapshot (end of thread)"); if (failed()) break; } ldb_release(S_.db, s.s); s.s = nullptr; }
}

} // namespace

Plan gen_shard(uint64_t seed, const string &prop) {
  Rng r(mix64(seed, 0x54A4D));
  Plan p;
  p.mode = "shard"; p.seed = seed;
  p.cfg = random_config(r);
  p.cfg.cmp = 0;
  if (r.chance(0.75)) p.cfg.wbs = 65536;
  int nthreads = (int)r.range(2, 4);
  p.sc = random_sched(r, true);
  p.params["prop"] = prop;
  p.seti("threads", nthreads);
  int per = g_light ? (int)r.range(20, 70) : r.chance(0.3) ? (int)r.range(15, 50) : (int)r.range(60, g_thorough ? 400 : 220);
  int nkeys = (int)r.range(4, 24);
  bool bigvals = r.chance(0.5);
  uint64_t tag = 1;
  double w_iter = prop == "C07" ? 3 : 1, w_snap = prop == "C06" ? 3 : 1, w_comp = (prop == "C14" || prop == "C13") ? 2 : 1;
  auto key = [&](int t) { char b[48]; snprintf(b, sizeof b, "s%d/k%03d", t, (int)r.below(nkeys)); return string(b); };
  for (int i = 0; i < per * nthreads; i++) {
    Op o; o.tid = (int)r.below(nthreads);
    int t = o.tid;
    double x = r.unit() * (52 + 8 * w_snap + 14 * w_iter + 9 * w_comp + 3);
    auto val = [&](Upd &u) { u.tag = tag++; u.fill = (int)r.below(2); int lc = (int)r.below(100); u.len = lc < 5 ? 0 : lc < (bigvals ? 55 : 85) ? (uint32_t)r.range(20, 900) : lc < 97 ? (uint32_t)r.range(1500, 6000) : (uint32_t)r.range(20000, 60000); };
    if (x < 22) { o.kind = O_PUT; o.key = key(t); Upd u; val(u); o.tag = u.tag; o.len = u.len; o.fill = u.fill; }
    else if (x < 27) { o.kind = O_DEL; o.key = key(t); }
    else if (x < 34) { o.kind = O_WRITE; int n = (int)r.range(2, 6); for (int q = 0; q < n; q++) { Upd u; u.key = key(t); u.del = r.chance(0.25); if (!u.del) val(u); o.ups.push_back(u); } }
    else if (x < 52) { o.kind = O_GET; o.key = r.chance(0.9) ? key(t) : key(t) + "x"; o.a = r.chance(0.35) ? (int)r.below(NS) : -1; }
    else if ((x -= 52) < 8 * w_snap) { o.kind = r.chance(0.6) ? O_SNAP : O_RELEASE; o.a = (int)r.below(NS); }
    else if ((x -= 8 * w_snap) < 14 * w_iter) {
      int c = (int)r.below(14);
      if (c < 3) { o.kind = O_ITER_NEW; o.a = (int)r.below(NI); o.b = r.chance(0.35) ? (int)r.below(NS) : -1; }
      else if (c < 10) { o.kind = O_ITER_OP; o.a = (int)r.below(NI); o.b = (int)r.below(4); o.key = r.chance(0.8) ? key(t) : key(t) + "0"; o.tag = r.below(5); }
      else if (c < 12) { o.kind = O_ITER_FREE; o.a = (int)r.below(NI); }
      else o.kind = O_SWEEP;
    }
    else if ((x -= 14 * w_iter) < 9 * w_comp) {
      int c = (int)r.below(9);
      if (c < 4) o.kind = O_FLUSH;
      else if (c < 8) { o.kind = O_COMPACT_RANGE; o.a = (int)r.below(4); o.b = r.chance(0.5); if (o.b) { o.key = key((int)r.below(nthreads)); o.key2 = key((int)r.below(nthreads)); if (o.key2 < o.key) std::swap(o.key, o.key2); } }
      else { o.kind = O_COMPACT; o.b = r.chance(0.7) ? (int)r.range(1, 3) : 0; }
    }
    else o.kind = O_SWEEP;
    p.ops.push_back(o);
  }
  p.seti("l0_files", r.chance(0.3) ? (long)r.range(2, 9) : 0);
  return p;
}

void exec_shard(const Plan &p, RunOut *out) {
  begin_run(p, out);
  {
    Shard S_; g_s = &S_; S_.p = &p;
    int nthreads = (int)p.geti("threads", 2);
    S_.th.resize(nthreads); S_.per_thread.resize(nthreads);
    for (int t = 0; t < nthreads; t++) { S_.th[t].tid = t; S_.th[t].lo = "s" + std::to_string(t) + "/"; S_.th[t].hi = "s" + std::to_string(t) + "0"; }
    for (size_t i = 0; i < p.ops.size(); i++) S_.per_thread[p.ops[i].tid % nthreads].push_back((int)i);
    DbOptions opt; opt.set(p.cfg, true);
    const string dir = "/sim/db";
    int rc = ldb_open(dir.c_str(), &opt.o, &S_.db);
    if (rc != LDB_OK) violation("C01", "open_failed", "open failed: %s", rcname(rc));
    else {
      // some level-0 files to start with (outside every own range): slowdown/stop triggers are then within reach
      uint64_t ptag = 900000000;
      for (long f = 0, n = p.geti("l0_files", 0); f < n && !failed(); f++) { Upd u; u.key = "zpad/" + std::to_string(f % 3); u.tag = ptag++; u.len = 64; db_write(S_.db, {u}, 0); ldb_test_compact_memtable(S_.db); }
      std::vector<int> tids;
      uint64_t sw0 = sim::stats().switches;
      for (int t = 1; t < nthreads; t++) tids.push_back(sim::spawn(shard_thread, (void *)(intptr_t)t));
      shard_thread((void *)(intptr_t)0);
      for (int t : tids) sim::join(t);
      uint64_t sw1 = sim::stats().switches;
      Contents all;
      for (auto &t : S_.th) for (auto &kv : t.model) all[kv.first] = kv.second;
      auto compare_all = [&](ldb_t *db, const char *prop, const char *what) {
        std::vector<std::pair<string, string>> rows;
        int src = db_scan(db, &rows, nullptr, 1);
        Contents got;
        for (auto &kv : rows) if (kv.first.compare(0, 5, "zpad/") != 0) got[kv.first] = kv.second;
        if (src != LDB_OK) violation(prop, "scan_status", "%s: full scan reports %s", what, rcname(src));
        else if (got != all) {
          string why = "sizes differ";
          for (auto &kv : all) { auto g = got.find(kv.first); if (g == got.end()) { why = "key " + printable(kv.first) + " is missing"; break; } if (g->second != kv.second) { why = "key " + printable(kv.first) + " holds " + printable(g->second) + ", expected " + printable(kv.second); break; } }
          if (why == "sizes differ") for (auto &kv : got) if (!all.count(kv.first)) { why = "key " + printable(kv.first) + " is present but was deleted"; break; }
          violation(prop, "scan_mismatch", "%s: full scan yields %zu entries, the union of the threads' models has %zu: %s", what, got.size(), all.size(), why.c_str());
        }
        count("full_compares");
      };
      if (!failed()) compare_all(S_.db, "C01", "after all threads have finished");
      if (!failed()) {
        sim::drain();
        std::vector<SstFile> files;
        if (parse_sstables(db_sstables(S_.db), &files)) { KeyCmp kc; check_level_structure(dir, files, kc, "after a sharded concurrent run"); count("structure_checks"); }
      }
      bool persist = !failed();
      if (persist) { sim::NoPreempt np; simfs::copy_tree(dir, "/sim/dbk"); }
      ldb_close(S_.db); S_.db = nullptr;
      if (persist) {
        sim::drain();
        const char *dirs[2] = {dir.c_str(), "/sim/dbk"};
        for (int d = 0; d < 2 && !failed(); d++) {
          sim::budget_reset();
          ldb_t *db2 = nullptr;
          int orc = ldb_open(dirs[d], &opt.o, &db2);
          if (orc != LDB_OK) { violation("C05", "reopen_failed", "reopen of %s after a sharded concurrent run failed: %s", d ? "the kill image" : "the closed database", rcname(orc)); break; }
          compare_all(db2, "C03", d ? "kill image reopened" : "closed database reopened");
          ldb_close(db2);
          sim::drain();
        }
      }
      uint64_t structural = out->probes["log:Compacting "] + out->probes["log:Level-0 table"];
      out->nontrivial = sw1 - sw0 >= 4 && structural >= 1 && out->counts["get_checks"] + out->counts["range_scans"] >= 10;
    }
    g_s = nullptr;
  }
  end_run(out);
}
