// lifecycle-mode (C20): open/close/failed-open sequences with a foreign-process
// lock probe, comparator mismatch, error_if_exists, backup and copy (also taken
// while writer threads are active), destroy with foreign files.
#include "lsim.h"
#include "monitors.h"
#include <algorithm>
#include <stdio.h>
#include <string.h>

namespace {

typedef std::map<string, string> Contents;
string marker_key(int tid, int n) { char b[48]; snprintf(b, sizeof b, "m/%d/%06d", tid, n); return string(1, '\0') + b; }
bool is_marker(const string &k) { return k.size() > 2 && k[0] == '\0' && k[1] == 'm'; }

struct WB { int tid, opidx; std::vector<Upd> ups; string marker; uint64_t inv = 0, ret = 0; int rc = -1; bool done = false; };
struct Bak { string dir; uint64_t inv, ret; int rc; };

struct Life {
  const Plan *p;
  ldb_t *db = nullptr;
  DbOptions *opt = nullptr;
  string dir = "/sim/db";
  Contents model;                      // single-threaded flavour
  std::vector<WB> wbs;                 // concurrent flavour
  std::vector<std::vector<int>> per_thread;
  std::vector<Bak> baks;
  bool created = false;
};
Life *g_l = nullptr;

bool read_all(const string &dir, const Config &cfg, Contents *out, const char *what) {
  DbOptions o; o.set(cfg, false);
  ldb_t *db = nullptr;
  int rc = ldb_open(dir.c_str(), &o.o, &db);
  if (rc != LDB_OK) { violation("C20", "copy_not_openable", "%s %s cannot be opened as a database of its own: %s", what, dir.c_str(), rcname(rc)); return false; }
  std::vector<std::pair<string, string>> rows;
  rc = db_scan(db, &rows, nullptr, 1);
  for (auto &kv : rows) (*out)[kv.first] = kv.second;
  ldb_close(db);
  sim::drain();
  if (rc != LDB_OK) { violation("C20", "copy_scan_status", "%s %s: scan reports %s", what, dir.c_str(), rcname(rc)); return false; }
  return true;
}

void lock_must_be(Life &L, bool held, const char *when) {
  bool foreign_gets_it = simfs::foreign_trylock(L.dir + "/LOCK");
  count("lock_probes");
  if (held && foreign_gets_it) violation("C20", "lock_dropped", "%s: a second process can take the LOCK file lock although a handle is open in this process", when);
  if (!held && !foreign_gets_it) violation("C20", "lock_not_released", "%s: the LOCK file lock is still held although no handle is open", when);
}

void check_model(Life &L, const char *when) {
  if (!L.db) return;
  std::vector<std::pair<string, string>> rows;
  int rc = db_scan(L.db, &rows, nullptr, 0);
  if (rc != LDB_OK || Contents(rows.begin(), rows.end()) != L.model) violation("C20", "source_changed", "%s: the source database no longer matches the model (%zu entries, expected %zu, status %s)", when, rows.size(), L.model.size(), rcname(rc));
}

void writer_thread(void *arg) {
  int tid = (int)(intptr_t)arg;
  Life &L = *g_l;
  for (int oi : L.per_thread[tid]) {
    if (failed()) break;
    const Op &o = L.p->ops[oi];
    if (o.kind == O_FLUSH) { ldb_test_compact_memtable(L.db); continue; }             // flushes and compactions issued by the
    if (o.kind == O_COMPACT_RANGE) { ldb_test_compact_range(L.db, o.a < 0 ? 0 : o.a > 4 ? 4 : o.a, NULL, NULL); continue; } // writers race with the backups of thread 0
    if (o.kind != O_WRITE) continue;
    for (auto &w : L.wbs) if (w.opidx == oi) { w.inv = sim::step(); w.rc = db_write(L.db, w.ups, o.sync); w.ret = sim::step(); w.done = true; if (w.rc) violation("C20", "write_failed", "write failed: %s", rcname(w.rc)); }
  }
}

void single_flavour(Life &L) {
  const Plan &p = *L.p;
  DbOptions &opt = *L.opt;
  int nbak = 0;
  std::vector<string> targets; // directories created by earlier backups/copies
  // backup or copy onto a directory that already exists (an earlier backup, or the source itself): whatever the call
  // answers, what was there must not be destroyed - an error leaves the target exactly as it was
  auto onto_existing = [&](const Op &o, bool backup) -> bool {
    if (o.a < 0) return false;
    size_t pick = (size_t)o.a % (targets.size() + 1);
    bool self = pick == targets.size();
    string tgt = self ? L.dir : targets[pick];
    if (self && !backup) return false;
    if (!backup && !L.created) return false;
    Contents before;
    if (!self && !read_all(tgt, p.cfg, &before, "existing target")) return true;
    uint64_t h0 = self ? 0 : simfs::tree_hash(tgt, true);
    int rc = backup ? ldb_backup(L.db, tgt.c_str()) : ldb_copy(L.dir.c_str(), tgt.c_str(), &opt.o);
    probe(self ? "backup_onto_source" : backup ? "backup_onto_existing" : "copy_onto_existing");
    if (self) {
      if (rc == LDB_OK) violation("C20", "backup_onto_self", "ldb_backup onto the source's own directory reports success");
      check_model(L, "after a refused backup onto the source's own directory");
      lock_must_be(L, true, "after a refused backup onto the source's own directory");
      return true;
    }
    if (rc != LDB_OK) {
      if (simfs::tree_hash(tgt, true) != h0) { violation("C20", "target_destroyed", "%s onto the existing directory %s fails with %s and has changed that directory's files", backup ? "ldb_backup" : "ldb_copy", tgt.c_str(), rcname(rc)); return true; }
      Contents after;
      if (read_all(tgt, p.cfg, &after, "existing target after a refused backup/copy") && after != before) violation("C20", "target_destroyed", "existing directory %s holds %zu entries after a refused %s, %zu before", tgt.c_str(), after.size(), backup ? "backup" : "copy", before.size());
    } else {
      Contents after;
      if (read_all(tgt, p.cfg, &after, "overwritten target") && after != L.model) violation("C20", "backup_contents", "%s onto an existing directory reports success but the target holds %zu entries, the source %zu", backup ? "ldb_backup" : "ldb_copy", after.size(), L.model.size());
    }
    if (L.db) check_model(L, "after backup/copy onto an existing directory");
    return true;
  };
  for (size_t i = 0; i < p.ops.size() && !failed(); i++) {
    const Op &o = p.ops[i];
    simfs::set_current_op((int)i);
    switch (o.kind) {
      case O_OPEN:
        if (!L.db && !L.created && o.b >= 1) {
          // lifecycle calls on things that do not exist yet
          string none = "/sim/none" + std::to_string(nbak++);
          if (o.b == 1) { // error_if_exists on a fresh directory is not an error
            opt.set(p.cfg, true); opt.o.error_if_exists = 1;
            int rc = ldb_open(L.dir.c_str(), &opt.o, &L.db);
            opt.o.error_if_exists = 0;
            if (rc != LDB_OK) { violation("C20", "open_failed", "ldb_open with error_if_exists on a directory without a database fails: %s", rcname(rc)); L.db = nullptr; break; }
            L.created = true; lock_must_be(L, true, "after open"); check_model(L, "after open");
            probe("error_if_exists_on_fresh_dir");
            break;
          }
          DbOptions o2; o2.set(p.cfg, true);
          if (o.b == 2) { int rc = ldb_copy(none.c_str(), (none + "-copy").c_str(), &o2.o); if (rc == LDB_OK) violation("C20", "copy_of_nothing", "ldb_copy of a directory that does not exist reports success"); if (simfs::exists(none)) violation("C20", "copy_of_nothing", "ldb_copy of a directory that does not exist created it"); }
          else if (o.b == 3) { int rc = ldb_destroy(none.c_str(), &o2.o); if (rc != LDB_OK) violation("C20", "destroy_of_nothing", "ldb_destroy of a directory that does not exist fails: %s", rcname(rc)); if (simfs::exists(none)) violation("C20", "destroy_of_nothing", "ldb_destroy of a directory that does not exist created it"); }
          probe("lifecycle_on_missing_dir");
          break;
        }
        if (!L.db) {
          opt.set(p.cfg, true);
          int rc = ldb_open(L.dir.c_str(), &opt.o, &L.db);
          if (rc != LDB_OK) { violation("C20", "open_failed", "open of a closed, unlocked database fails: %s", rcname(rc)); L.db = nullptr; break; }
          L.created = true;
          lock_must_be(L, true, "after open");
          check_model(L, "after open");
        }
        break;
      case O_CLOSE:
        if (L.db) { ldb_close(L.db); L.db = nullptr; sim::drain(); lock_must_be(L, false, "after close"); }
        break;
      case O_WRITE:
        if (L.db) { int rc = db_write(L.db, o.ups, o.sync); if (rc) { violation("C20", "write_failed", "write failed: %s", rcname(rc)); break; } for (auto &u : o.ups) { if (u.del) L.model.erase(u.key); else L.model[u.key] = mkval(u.tag, u.len, u.fill); } }
        break;
      case O_FLUSH: if (L.db) ldb_test_compact_memtable(L.db); break;
      case O_COMPACT_RANGE: if (L.db) ldb_test_compact_range(L.db, o.a < 0 ? 0 : o.a > 4 ? 4 : o.a, NULL, NULL); break;
      case O_OPEN2: {
        // a second open: in-process while open (b=0), or with a different comparator / error_if_exists / missing db (b=1..3) while closed
        if (o.b == 0) {
          if (!L.db) break;
          DbOptions o2; o2.set(p.cfg, true);
          ldb_t *db2 = nullptr;
          int rc = ldb_open(L.dir.c_str(), &o2.o, &db2);
          probe("second_open_attempts");
          if (rc == LDB_OK) { violation("C20", "double_open", "a second ldb_open of a database that is already open in this process succeeds"); ldb_close(db2); break; }
          lock_must_be(L, true, "after a failed second in-process open");
          check_model(L, "after a failed second open");
        } else {
          if (L.db || !L.created) break;
          uint64_t h0 = simfs::tree_hash(L.dir, true);
          Config c2 = p.cfg; DbOptions o2; const char *what;
          if (o.b == 1) { c2.cmp = (p.cfg.cmp + 1) % 3; o2.set(c2, true); what = "a different comparator"; }
          else if (o.b == 2) { o2.set(c2, true); o2.o.error_if_exists = 1; what = "error_if_exists"; }
          else { o2.set(c2, false); what = "create_if_missing=0 on an empty directory"; }
          string target = L.dir;
          if (o.b == 3) { target = "/sim/empty"; simfs::mkdir_p(target); }
          ldb_t *db2 = nullptr;
          int rc = ldb_open(target.c_str(), &o2.o, &db2);
          probe("refused_open_attempts");
          if (rc == LDB_OK) { violation("C20", "open_not_refused", "ldb_open with %s succeeds", what); ldb_close(db2); break; }
          if (o.b != 3) {
            if (simfs::tree_hash(L.dir, true) != h0) violation("C20", "refused_open_modified_db", "ldb_open with %s is refused (%s) but the database directory was modified", what, rcname(rc));
            lock_must_be(L, false, "after a refused open");
            // a fresh, correct open must still succeed
            opt.set(p.cfg, true);
            rc = ldb_open(L.dir.c_str(), &opt.o, &L.db);
            if (rc != LDB_OK) { violation("C20", "open_failed", "open after a refused open (%s) fails: %s", what, rcname(rc)); L.db = nullptr; break; }
            check_model(L, "after a refused open");
          }
        }
        break;
      }
      case O_LOCK_PROBE:
        if (L.created) lock_must_be(L, L.db != nullptr, "probe");
        if (o.b == 1 && L.created && !L.db && simfs::foreign_lock(L.dir + "/LOCK", true)) {
          // another process holds the database: open, destroy and copy must all be refused and leave every file alone
          uint64_t h0 = simfs::tree_hash(L.dir, true);
          probe("foreign_lock_holder");
          { DbOptions o2; o2.set(p.cfg, true); ldb_t *db2 = nullptr; int rc = ldb_open(L.dir.c_str(), &o2.o, &db2);
            if (rc == LDB_OK) { violation("C20", "open_despite_foreign_lock", "ldb_open succeeds although another process holds the LOCK file"); ldb_close(db2); } }
          if (!failed()) { DbOptions o2; o2.set(p.cfg, true); int rc = ldb_destroy(L.dir.c_str(), &o2.o);
            if (rc == LDB_OK) violation("C20", "destroy_despite_foreign_lock", "ldb_destroy succeeds although another process holds the LOCK file"); }
          if (!failed()) { DbOptions o2; o2.set(p.cfg, true); string cd = "/sim/fcopy" + std::to_string(nbak++); int rc = ldb_copy(L.dir.c_str(), cd.c_str(), &o2.o);
            if (rc == LDB_OK) { Contents got; if (read_all(cd, p.cfg, &got, "copy taken while another process holds the source") && got != L.model) violation("C20", "copy_contents", "ldb_copy of a database held by another process succeeds with different contents"); } }
          if (!failed() && simfs::tree_hash(L.dir, true) != h0) violation("C20", "refused_call_modified_db", "open/destroy/copy refused because another process holds the LOCK file, but the database directory was modified");
          simfs::foreign_lock(L.dir + "/LOCK", false);
          if (!failed()) {
            opt.set(p.cfg, true);
            int rc = ldb_open(L.dir.c_str(), &opt.o, &L.db);
            if (rc != LDB_OK) { violation("C20", "open_failed", "open after the other process released the LOCK file fails: %s", rcname(rc)); L.db = nullptr; }
            else check_model(L, "after the other process released the lock");
          }
        }
        break;
      case O_BACKUP: {
        if (!L.db) break;
        if (onto_existing(o, true)) break;
        string bd = "/sim/bak" + std::to_string(nbak++);
        targets.push_back(bd);
        // quiescent point first: ldb_backup itself waits for a running compaction, which legitimately changes the layout
        sim::drain();
        string before = db_sstables(L.db);
        int rc = ldb_backup(L.db, bd.c_str());
        probe("backups");
        if (rc != LDB_OK) { violation("C20", "backup_failed", "ldb_backup fails: %s", rcname(rc)); break; }
        if (db_sstables(L.db) != before) violation("C20", "source_changed", "ldb_backup changed the layout of the source");
        check_model(L, "after backup");
        lock_must_be(L, true, "after backup");
        Contents got;
        if (!read_all(bd, p.cfg, &got, "backup")) break;
        if (got != L.model) { violation("C20", "backup_contents", "backup taken at operation %zu holds %zu entries, the source held %zu at that moment", i, got.size(), L.model.size()); break; }
        // independence: a write to the copy does not reach the source and vice versa
        { DbOptions o3; o3.set(p.cfg, false); ldb_t *b = nullptr; if (ldb_open(bd.c_str(), &o3.o, &b) == LDB_OK) { Upd u; u.key = "only-in-backup"; u.tag = 777000 + i; u.len = 10; db_write(b, {u}, 0); ldb_test_compact_memtable(b); ldb_close(b); sim::drain(); } }
        check_model(L, "after writing to the backup");
        break;
      }
      case O_COPY: {
        string cd = "/sim/copy" + std::to_string(nbak++);
        if (L.db) {
          // copying an open database must be refused and must not disturb it
          int rc = ldb_copy(L.dir.c_str(), cd.c_str(), &opt.o);
          probe("copy_of_open_db");
          if (rc == LDB_OK) { Contents got; if (read_all(cd, p.cfg, &got, "copy") && got != L.model) violation("C20", "copy_contents", "ldb_copy of an open database succeeded with different contents"); }
          lock_must_be(L, true, "after ldb_copy on an open database");
          check_model(L, "after ldb_copy on an open database");
        } else if (L.created) {
          if (onto_existing(o, false)) break;
          targets.push_back(cd);
          uint64_t h0 = simfs::tree_hash(L.dir, true);
          int rc = ldb_copy(L.dir.c_str(), cd.c_str(), &opt.o);
          probe("copies");
          if (rc != LDB_OK) { violation("C20", "copy_failed", "ldb_copy of a closed database fails: %s", rcname(rc)); break; }
          if (simfs::tree_hash(L.dir, true) != h0) violation("C20", "source_changed", "ldb_copy modified the source directory");
          lock_must_be(L, false, "after ldb_copy");
          Contents got;
          if (read_all(cd, p.cfg, &got, "copy") && got != L.model) violation("C20", "copy_contents", "copy holds %zu entries, the source holds %zu", got.size(), L.model.size());
        }
        break;
      }
      case O_DESTROY: {
        if (!L.created) break;
        if (L.db) {
          int rc = ldb_destroy(L.dir.c_str(), &opt.o);
          probe("destroy_of_open_db");
          if (rc == LDB_OK) { violation("C20", "destroy_open_db", "ldb_destroy of a database that is open in this process succeeds"); break; }
          lock_must_be(L, true, "after ldb_destroy on an open database");
          check_model(L, "after ldb_destroy on an open database");
          break;
        }
        // foreign files (names lcdb does not own) must survive byte-identically
        std::map<string, string> foreign;
        if (o.b & 1) foreign[L.dir + "/notes.txt"] = "keep me " + std::to_string(i);
        if (o.b & 2) foreign[L.dir + "/000123.foo"] = string(300, 'x');
        if (o.b & 4) foreign[L.dir + "/MANIFEST"] = "not a manifest name";
        if (o.b & 8) { simfs::mkdir_p(L.dir + "/sub"); foreign[L.dir + "/sub/000005.ldb"] = "in a subdirectory"; }
        for (auto &f : foreign) simfs::write_file(f.first, f.second);
        int rc = ldb_destroy(L.dir.c_str(), &opt.o);
        probe("destroys");
        if (rc != LDB_OK) { violation("C20", "destroy_failed", "ldb_destroy fails: %s", rcname(rc)); break; }
        for (auto &f : foreign) { string d; if (!simfs::read_file(f.first, &d) || d != f.second) { violation("C20", "destroy_removed_foreign", "ldb_destroy removed or changed the foreign file %s", f.first.c_str()); break; } }
        for (auto &n : simfs::list_dir(L.dir)) { uint64_t num; int fc; if (parse_db_filename(n, &num, &fc) && n != "MANIFEST") { violation("C20", "destroy_incomplete", "ldb_destroy left the database's own file %s behind", n.c_str()); break; } }
        if (foreign.empty() && simfs::exists(L.dir)) violation("C20", "destroy_incomplete", "ldb_destroy left the (empty) database directory behind");
        simfs::remove_tree(L.dir);
        L.model.clear(); L.created = false;
        break;
      }
      default: break;
    }
  }
  if (L.db) { ldb_close(L.db); L.db = nullptr; sim::drain(); if (!failed()) lock_must_be(L, false, "after final close"); }
}

void concurrent_flavour(Life &L) {
  const Plan &p = *L.p;
  int nthreads = (int)p.geti("threads", 2);
  L.per_thread.resize(nthreads);
  for (size_t i = 0; i < p.ops.size(); i++) {
    const Op &o = p.ops[i];
    int t = o.tid % nthreads;
    L.per_thread[t].push_back((int)i);
    if (o.kind == O_WRITE && t != 0 && !o.ups.empty() && is_marker(o.ups[0].key)) { WB w; w.tid = t; w.opidx = (int)i; w.ups = o.ups; w.marker = o.ups[0].key; L.wbs.push_back(w); }
  }
  L.opt->set(p.cfg, true);
  int rc = ldb_open(L.dir.c_str(), &L.opt->o, &L.db);
  if (rc != LDB_OK) { violation("C20", "open_failed", "open failed: %s", rcname(rc)); L.db = nullptr; return; }
  std::vector<int> tids;
  for (int t = 1; t < nthreads; t++) tids.push_back(sim::spawn(writer_thread, (void *)(intptr_t)t));
  int nb = 0;
  for (int oi : L.per_thread[0]) {
    if (failed()) break;
    const Op &o = p.ops[oi];
    if (o.kind == O_BACKUP) {
      Bak b; b.dir = "/sim/bak" + std::to_string(nb++);
      b.inv = sim::step(); b.rc = ldb_backup(L.db, b.dir.c_str()); b.ret = sim::step();
      probe("backups_concurrent");
      if (b.rc != LDB_OK) violation("C20", "backup_failed", "ldb_backup fails while writers are active: %s", rcname(b.rc));
      L.baks.push_back(b);
      lock_must_be(L, true, "after a concurrent backup");
    } else if (o.kind == O_FLUSH) ldb_test_compact_memtable(L.db);
    else if (o.kind == O_COMPACT_RANGE) ldb_test_compact_range(L.db, o.a < 0 ? 0 : o.a > 4 ? 4 : o.a, NULL, NULL);
    else if (o.kind == O_GET) { string v; db_get(L.db, o.key, &v, nullptr, 0, 1); }
  }
  for (int t : tids) sim::join(t);
  // the source holds every write
  if (!failed()) {
    std::vector<std::pair<string, string>> rows;
    db_scan(L.db, &rows, nullptr, 0);
    Contents got(rows.begin(), rows.end()), want;
    for (auto &w : L.wbs) if (w.done && w.rc == 0) for (auto &u : w.ups) { if (u.del) want.erase(u.key); else want[u.key] = mkval(u.tag, u.len, u.fill); }
    if (got != want) violation("C20", "source_changed", "after concurrent backups the source holds %zu entries, expected %zu", got.size(), want.size());
  }
  ldb_close(L.db); L.db = nullptr;
  sim::drain();
  // each backup: an openable database whose contents are the source's at some instant inside the call
  for (auto &b : L.baks) {
    if (failed() || b.rc != LDB_OK) break;
    Contents got;
    if (!read_all(b.dir, p.cfg, &got, "backup")) break;
    std::set<string> S;
    for (auto &kv : got) if (is_marker(kv.first)) S.insert(kv.first);
    Contents want;
    std::map<int, bool> gap;
    for (auto &w : L.wbs) {
      bool in = S.count(w.marker) != 0;
      if (!in && w.done && w.ret < b.inv) { violation("C20", "backup_misses_acked", "backup taken at steps [%llu,%llu] misses batch %s which had been acknowledged at step %llu, before the call began", (unsigned long long)b.inv, (unsigned long long)b.ret, printable(w.marker).c_str(), (unsigned long long)w.ret); break; }
      if (in && w.inv > b.ret) { violation("C20", "backup_has_later_write", "backup taken at steps [%llu,%llu] contains batch %s which was only issued at step %llu, after the call returned", (unsigned long long)b.inv, (unsigned long long)b.ret, printable(w.marker).c_str(), (unsigned long long)w.inv); break; }
      if (in && gap[w.tid]) { violation("C20", "backup_not_a_prefix", "backup contains batch %s of writer %d but misses an earlier batch of the same writer", printable(w.marker).c_str(), w.tid); break; }
      if (!in) gap[w.tid] = true;
      if (in) for (auto &u : w.ups) { if (u.del) want.erase(u.key); else want[u.key] = mkval(u.tag, u.len, u.fill); }
    }
    if (!failed() && want != got) violation("C20", "backup_contents", "backup taken at steps [%llu,%llu] is not the fold of whole batches (%zu entries, fold has %zu)", (unsigned long long)b.inv, (unsigned long long)b.ret, got.size(), want.size());
    count("concurrent_backups_checked");
  }
}

} // namespace

Plan gen_life(uint64_t seed, const string &prop) {
  Rng r(mix64(seed, 0x11FE));
  Plan p;
  p.mode = "life"; p.seed = seed;
  p.cfg = random_config(r);
  p.cfg.wbs = 65536;
  p.params["prop"] = prop;
  bool conc = r.chance(0.45);
  p.seti("concurrent", conc);
  p.seti("default_log", r.chance(0.3));
  uint64_t tag = 1;
  if (conc) {
    p.cfg.cmp = 0;
    int nthreads = (int)r.range(2, 4);
    p.seti("threads", nthreads);
    p.sc = random_sched(r, true);
    std::vector<int> nm(nthreads, 0);
    int nops = (int)r.range(10, 60);
    for (int i = 0; i < nops; i++) {
      Op o; int c = (int)r.below(100);
      if (c < 70) {
        o.kind = O_WRITE; o.tid = (int)r.range(1, nthreads - 1);
        Upd m; m.key = marker_key(o.tid, nm[o.tid]++); m.tag = tag++; m.len = 8; o.ups.push_back(m);
        int n = (int)r.range(1, 3);
        for (int q = 0; q < n; q++) { Upd u; char kb[48]; snprintf(kb, sizeof kb, "w%d/k%02d", o.tid, (int)r.below(6)); u.key = kb; u.del = r.chance(0.2); if (!u.del) { u.tag = tag++; u.len = r.chance(0.8) ? (uint32_t)r.range(50, 2500) : (uint32_t)r.range(5000, 30000); u.fill = (int)r.below(2); } o.ups.push_back(u); }
        o.sync = r.chance(0.1);
      } else if (c < 88) { o.kind = O_BACKUP; o.tid = 0; }
      else if (c < 93) { o.kind = O_FLUSH; o.tid = r.chance(0.7) ? (int)r.range(1, nthreads - 1) : 0; }
      else if (c < 97) { o.kind = O_COMPACT_RANGE; o.tid = r.chance(0.7) ? (int)r.range(1, nthreads - 1) : 0; o.a = (int)r.below(2); }
      else { o.kind = O_GET; o.tid = 0; o.key = "w1/k01"; }
      p.ops.push_back(o);
    }
    return p;
  }
  p.sc = random_sched(r, false);
  int nops = (int)r.range(6, 40);
  if (r.chance(0.25)) { Op o; o.kind = O_OPEN; o.b = (int)r.range(2, 3); p.ops.push_back(o); } // copy / destroy of a directory that does not exist
  { Op o; o.kind = O_OPEN; if (r.chance(0.2)) o.b = 1; p.ops.push_back(o); }                       // b=1: first open with error_if_exists
  for (int i = 0; i < nops; i++) {
    Op o; int c = (int)r.below(100);
    if (c < 30) { o.kind = O_WRITE; int n = (int)r.range(1, 4); for (int q = 0; q < n; q++) { Upd u; char kb[32]; snprintf(kb, sizeof kb, "lk%02d", (int)r.below(10)); u.key = kb; u.del = r.chance(0.2); if (!u.del) { u.tag = tag++; u.len = r.chance(0.85) ? (uint32_t)r.range(10, 2000) : (uint32_t)r.range(20000, 70000); u.fill = (int)r.below(2); } o.ups.push_back(u); } }
    else if (c < 36) o.kind = O_FLUSH;
    else if (c < 40) { o.kind = O_COMPACT_RANGE; o.a = (int)r.below(3); }
    else if (c < 50) o.kind = O_OPEN;
    else if (c < 58) o.kind = O_CLOSE;
    else if (c < 70) { o.kind = O_OPEN2; o.b = (int)r.below(4); }
    else if (c < 78) { o.kind = O_LOCK_PROBE; o.b = r.chance(0.4); }
    else if (c < 86) { o.kind = O_BACKUP; if (r.chance(0.3)) o.a = (int)r.below(6); }
    else if (c < 93) { o.kind = O_COPY; if (r.chance(0.3)) o.a = (int)r.below(6); }
    else { o.kind = O_DESTROY; o.b = (int)r.below(16); }
    p.ops.push_back(o);
  }
  return p;
}

void exec_life(const Plan &p, RunOut *out) {
  begin_run(p, out);
  {
    Life L; g_l = &L; L.p = &p;
    DbOptions opt; L.opt = &opt;
    opt.default_info_log = p.geti("default_log", 0) != 0;
    if (opt.default_info_log) probe("default_info_log_runs");
    if (p.geti("concurrent", 0)) concurrent_flavour(L); else single_flavour(L);
    out->nontrivial = out->probes.count("second_open_attempts") || out->probes.count("refused_open_attempts") || out->probes.count("backups") || out->probes.count("backups_concurrent") ||
                      out->probes.count("copies") || out->probes.count("destroys") || out->probes.count("copy_of_open_db") || out->probes.count("destroy_of_open_db");
    g_l = nullptr;
  }
  end_run(out);
}
