// corrupt-mode (C11): a seeded history builds a small multi-level database that is
// closed cleanly; then stored-byte damage a disk can produce (single-bit flips,
// 0x00, 0xFF, truncation, a zeroed 512-byte sector) is applied at structure-aware
// positions of every table/log/MANIFEST/CURRENT file, one fault at a time, and each
// damaged image is opened with paranoid_checks and read with verify_checksums.
#include "lsim.h"
#include "monitors.h"
#include <algorithm>
#include <stdio.h>
#include <string.h>

namespace {

typedef std::map<string, string> Contents;
string marker_key(int n) { char b[32]; snprintf(b, sizeof b, "m/%06d", n); return string(1, '\0') + b; }
bool is_marker(const string &k) { return k.size() > 2 && k[0] == '\0' && k[1] == 'm'; }

struct Mutation { string file; int fclass; size_t off; int kind; int bit; const char *region; };
// kind: 0 bit flip, 1 set 0x00, 2 set 0xFF, 3 truncate at off, 4 zero 512-byte sector containing off
// kind 5: zeros from off to the end of its 32 KiB block (consecutive zeroed sectors; logs only)
static const char *kind_name[] = {"bit-flip", "byte=0x00", "byte=0xFF", "truncate", "zero-sector", "zero-to-block-end"};

bool apply_mutation(string *data, const Mutation &m) {
  if (m.off >= data->size() && m.kind != 3) return false;
  switch (m.kind) {
    case 0: (*data)[m.off] = (char)((*data)[m.off] ^ (1 << m.bit)); return true;
    case 1: if ((*data)[m.off] == 0) return false; (*data)[m.off] = 0; return true;
    case 2: if ((unsigned char)(*data)[m.off] == 0xFF) return false; (*data)[m.off] = (char)0xFF; return true;
    case 3: if (m.off >= data->size()) return false; data->resize(m.off); return true;
    case 5: { size_t e = std::min((m.off / 32768 + 1) * 32768, data->size()); bool ch = false; for (size_t i = m.off; i < e; i++) if ((*data)[i]) { (*data)[i] = 0; ch = true; } return ch; }
    case 4: { size_t s = m.off - m.off % 512, e = std::min(s + 512, data->size()); bool ch = false; for (size_t i = s; i < e; i++) if ((*data)[i]) { (*data)[i] = 0; ch = true; } return ch; }
  }
  return false;
}

struct World {
  const Plan &p;
  Contents model;                                       // final contents
  std::map<string, std::set<string>> ever;              // key -> every value ever written
  std::vector<string> keys;
  struct Bt { std::vector<Upd> ups; string marker; };
  std::vector<Bt> batches;
  explicit World(const Plan &pl) : p(pl) {}
};

// reads the damaged database and judges it
void judge_image(World &W, const string &dir, const Mutation &m) {
  char wbuf[300];
  snprintf(wbuf, sizeof wbuf, "%s of %s (%s region) at offset %zu%s", kind_name[m.kind], m.file.c_str(), m.region, m.off, m.kind == 0 ? (" bit " + std::to_string(m.bit)).c_str() : "");
  const char *where = wbuf;
  bool meta_damage = m.fclass != simfs::FC_TABLE;
  // table damage is judged with paranoid_checks on (as the property says); the sentence about log/MANIFEST damage is
  // not restricted to that mode, so those images are opened both ways (alternating)
  Config c = W.p.cfg; c.paranoid = meta_damage ? (int)(mix64(m.off, (uint64_t)m.kind * 977 + (uint64_t)m.bit) & 1) : 1;
  DbOptions opt; opt.set(c, false);
  ldb_t *db = nullptr;
  int rc = ldb_open(dir.c_str(), &opt.o, &db);
  count("mutations");
  probe((string("damage:") + simfs::fclass_name[m.fclass] + ":" + kind_name[m.kind]).c_str());
  if (rc != LDB_OK) { probe("outcome:open_error"); return; } // an error report: always acceptable
  if (meta_damage) {
    // log / MANIFEST / CURRENT: records may be lost, but never a value that was not written or a partially applied batch
    std::vector<std::pair<string, string>> rows;
    rc = db_scan(db, &rows, nullptr, 1);
    if (rc == LDB_OK) {
      Contents got; std::set<string> S;
      for (auto &kv : rows) { got[kv.first] = kv.second; if (is_marker(kv.first)) S.insert(kv.first); }
      Contents want;
      for (auto &b : W.batches) if (S.count(b.marker)) for (auto &u : b.ups) { if (u.del) want.erase(u.key); else want[u.key] = mkval(u.tag, u.len, u.fill); }
      if (want != got) {
        string why = "contents are not the fold of whole batches";
        for (auto &kv : got) { auto e = W.ever.find(kv.first); if (e == W.ever.end() || !e->second.count(kv.second)) { why = "key " + printable(kv.first) + " holds a value that was never written: " + printable(kv.second); break; } }
        violation("C11", "meta_damage_wrong_contents", "%s: open (paranoid_checks=%d) succeeds and %s (%zu keys, fold of surviving batches has %zu)", where, c.paranoid, why.c_str(), got.size(), want.size());
      }
      probe("outcome:opened_subset");
    } else probe("outcome:scan_error");
    ldb_close(db);
    return;
  }
  // table damage: every answer is correct or an error
  bool any_error = false;
  auto read_checks = [&]() {
  for (auto &k : W.keys) {
    string v;
    int grc = db_get(db, k, &v, nullptr, 1, 0);
    count("gets_on_damaged");
    auto it = W.model.find(k);
    if (grc == LDB_OK) {
      if (it == W.model.end()) { violation("C11", "wrong_value", "%s: get(%s) returns %s but the key is not live", where, printable(k).c_str(), printable(v).c_str()); break; }
      if (it->second != v) { violation("C11", "wrong_value", "%s: get(%s) returns %s, the live value is %s (status OK, verify_checksums=1, paranoid_checks=1)", where, printable(k).c_str(), printable(v).c_str(), printable(it->second).c_str()); break; }
    } else if (grc == LDB_NOTFOUND) {
      if (it != W.model.end()) { violation("C11", "silently_missing", "%s: get(%s) returns NOTFOUND for a live key (no error reported)", where, printable(k).c_str()); break; }
    } else any_error = true;
  }
  for (int dirn = 0; dirn < 2 && !failed(); dirn++) {
    std::vector<std::pair<string, string>> rows;
    int src = dirn == 0 ? db_scan(db, &rows, nullptr, 1) : db_scan_back(db, &rows, nullptr, 1);
    if (dirn == 1) std::reverse(rows.begin(), rows.end());
    count("scans_on_damaged");
    if (src == LDB_OK) {
      Contents got(rows.begin(), rows.end());
      if (got.size() != rows.size() || got != W.model) {
        string why;
        for (auto &kv : W.model) if (!got.count(kv.first)) { why = "live key " + printable(kv.first) + " is silently omitted"; break; }
        if (why.empty()) for (auto &kv : got) { auto it = W.model.find(kv.first); if (it == W.model.end()) { why = "key " + printable(kv.first) + " is not live but is returned"; break; } if (it->second != kv.second) { why = "key " + printable(kv.first) + " has a wrong value"; break; } }
        if (why.empty()) why = "duplicate keys";
        violation("C11", "wrong_scan", "%s: a %s scan ends with status OK but %s (%zu entries, model %zu)", where, dirn ? "backward" : "forward", why.c_str(), rows.size(), W.model.size());
      }
    } else {
      any_error = true;
      for (auto &kv : rows) { auto e = W.ever.find(kv.first); if (e == W.ever.end() || !e->second.count(kv.second)) { violation("C11", "invented_value", "%s: a scan that ended with %s yielded %s=%s, which was never written", where, rcname(src), printable(kv.first).c_str(), printable(kv.second).c_str()); break; } }
    }
  }
  // iterator used as a lookup and for bounded range scans: the status is read while the iterator is still valid, i.e.
  // possibly after it has skipped a damaged block - an OK status then vouches for what was returned so far
  {
    ldb_readopt_t ro = *ldb_iteropt_default; ro.verify_checksums = 1;
    ldb_iter_t *it = ldb_iterator(db, &ro);
    std::vector<std::pair<string, string>> live(W.model.begin(), W.model.end());
    { KeyCmp kc; kc.type = W.p.cfg.cmp; std::sort(live.begin(), live.end(), [&](const std::pair<string, string> &a, const std::pair<string, string> &b) { return kc.cmp(a.first, b.first) < 0; }); } // iterator order is the database comparator's
    for (size_t i = 0; i < live.size() && !failed(); i++) {
      ldb_slice_t t = S(live[i].first);
      ldb_iter_seek(it, &t);
      count("range_probes");
      for (size_t step = 0; step < 3 && i + step < live.size(); step++) {
        int st = ldb_iter_status(it);
        if (st != LDB_OK) { any_error = true; break; }
        if (!ldb_iter_valid(it)) { // exhausted with OK status although live keys remain
          violation("C11", "silently_missing", "%s: seek(%s)%s leaves the iterator exhausted with status OK although live key %s follows", where, printable(live[i].first).c_str(), step ? " + next" : "", printable(live[i + step].first).c_str());
          break;
        }
        string k = str_of(ldb_iter_key(it)), v = str_of(ldb_iter_value(it));
        if (k != live[i + step].first) { violation("C11", "silently_missing", "%s: seek(%s)%s lands on %s with status OK; live key %s was skipped without any error", where, printable(live[i].first).c_str(), step ? " + next" : "", printable(k).c_str(), printable(live[i + step].first).c_str()); break; }
        if (v != live[i + step].second) { violation("C11", "wrong_value", "%s: iterator positioned by seek(%s) shows a wrong value for %s with status OK", where, printable(live[i].first).c_str(), printable(k).c_str()); break; }
        ldb_iter_next(it);
      }
    }
    // and backwards: seek_le + prev
    for (size_t i = live.size(); i-- > 0 && !failed();) {
      if (i % 3) continue;
      ldb_slice_t t = S(live[i].first);
      ldb_iter_seek_le(it, &t);
      for (size_t step = 0; step < 3 && step <= i; step++) {
        int st = ldb_iter_status(it);
        if (st != LDB_OK) { any_error = true; break; }
        if (!ldb_iter_valid(it)) { violation("C11", "silently_missing", "%s: seek_le(%s)%s leaves the iterator exhausted with status OK although live key %s precedes", where, printable(live[i].first).c_str(), step ? " + prev" : "", printable(live[i - step].first).c_str()); break; }
        string k = str_of(ldb_iter_key(it)), v = str_of(ldb_iter_value(it));
        if (k != live[i - step].first) { violation("C11", "silently_missing", "%s: seek_le(%s)%s lands on %s with status OK; live key %s was skipped without any error", where, printable(live[i].first).c_str(), step ? " + prev" : "", printable(k).c_str(), printable(live[i - step].first).c_str()); break; }
        if (v != live[i - step].second) { violation("C11", "wrong_value", "%s: iterator positioned by seek_le(%s) shows a wrong value for %s with status OK", where, printable(live[i].first).c_str(), printable(k).c_str()); break; }
        ldb_iter_prev(it);
      }
    }
    ldb_iter_destroy(it);
  }
  };
  read_checks();
  probe(any_error ? "outcome:error_reported" : "outcome:all_correct");
  // a compaction that reads the damaged file (checksums are verified: paranoid_checks) must not launder the damage
  // into freshly checksummed tables: afterwards every answer is still correct or an error
  if (!failed() && mix64(m.off * 31 + (uint64_t)m.bit, 0xC0DE + (uint64_t)m.kind) % 4 == 0) {
    ldb_compact(db, NULL, NULL);
    sim::drain();
    string w2 = string(wbuf) + ", then a full manual compaction";
    where = w2.c_str();
    bool first_error = any_error; any_error = false;
    read_checks();
    count("post_compaction_read_passes");
    probe(any_error ? "outcome_after_compaction:error_reported" : first_error ? "outcome_after_compaction:error_gone_answers_correct" : "outcome_after_compaction:all_correct");
    where = wbuf;
  }
  ldb_close(db);
}

} // namespace

Plan gen_corrupt(uint64_t seed, const string &prop) {
  Rng r(mix64(seed, 0xC0441));
  Plan p;
  p.mode = "corrupt"; p.seed = seed;
  p.cfg = random_config(r);
  if (p.cfg.cmp == 3) p.cfg.cmp = 0;
  p.cfg.wbs = 65536; p.cfg.paranoid = 1;
  p.cfg.block = r.chance(0.7) ? 1024 : 4096;
  if (r.chance(0.7)) p.cfg.filter = 1;
  p.cfg.cache = r.chance(0.5) ? 1 : p.cfg.cache;
  p.sc = random_sched(r, false);
  p.params["prop"] = prop;
  int nops = (int)r.range(8, 40);
  int nkeys = (int)r.range(4, 16);
  uint64_t tag = 1; int nm = 0;
  for (int i = 0; i < nops; i++) {
    Op o; int c = (int)r.below(100);
    if (c < 72 || i >= nops - 2) {
      o.kind = O_WRITE;
      Upd m; m.key = marker_key(nm++); m.tag = tag++; m.len = 8; o.ups.push_back(m);
      int n = (int)r.range(1, 5);
      for (int q = 0; q < n; q++) { Upd u; char kb[32]; snprintf(kb, sizeof kb, "key%03d", (int)r.below(nkeys)); u.key = kb; u.del = r.chance(0.15); if (!u.del) { u.tag = tag++; u.fill = (int)r.below(2); u.len = r.chance(0.85) ? (uint32_t)r.range(20, 700) : (uint32_t)r.range(1500, 5000); } o.ups.push_back(u); }
    } else if (c < 88) o.kind = O_FLUSH;
    else { o.kind = O_COMPACT_RANGE; o.a = (int)r.below(3); }
    p.ops.push_back(o);
  }
  if (r.chance(0.4)) { // a final unflushed batch whose log record spans several 32 KiB blocks
    Op o; o.kind = O_WRITE;
    Upd m; m.key = marker_key(nm++); m.tag = tag++; m.len = 8; o.ups.push_back(m);
    int n = (int)r.range(30, 90);
    for (int q = 0; q < n; q++) { Upd u; char kb[32]; snprintf(kb, sizeof kb, "key%03d", (int)r.below(nkeys + 20)); u.key = kb; u.tag = tag++; u.fill = 1; u.len = (uint32_t)r.range(800, 2500); o.ups.push_back(u); }
    p.ops.push_back(o);
  }
  p.seti("max_mut", g_thorough ? 6000 : 450);
  p.seti("dense", g_thorough ? 1 : 0); // 1 = all alterations at every enumerated position (thorough tier)
  return p;
}

void exec_corrupt(const Plan &p, RunOut *out) {
  begin_run(p, out);
  {
    World W(p);
    const string dir = "/sim/db", base = "/sim/base", mut = "/sim/mut";
    {
      DbOptions opt; opt.set(p.cfg, true);
      ldb_t *db = nullptr;
      int rc = ldb_open(dir.c_str(), &opt.o, &db);
      if (rc != LDB_OK) violation("C11", "build_failed", "building the database failed: %s", rcname(rc));
      for (size_t i = 0; i < p.ops.size() && db && !failed(); i++) {
        const Op &o = p.ops[i];
        if (o.kind == O_WRITE && !o.ups.empty()) {
          rc = db_write(db, o.ups, 0);
          if (rc != LDB_OK) { violation("C11", "build_failed", "write failed: %s", rcname(rc)); break; }
          World::Bt b; b.ups = o.ups; b.marker = o.ups[0].key; W.batches.push_back(b);
          for (auto &u : o.ups) { if (u.del) W.model.erase(u.key); else { string v = mkval(u.tag, u.len, u.fill); W.model[u.key] = v; W.ever[u.key].insert(v); } }
        } else if (o.kind == O_FLUSH) ldb_test_compact_memtable(db);
        else if (o.kind == O_COMPACT_RANGE) ldb_test_compact_range(db, o.a < 0 ? 0 : o.a > 5 ? 5 : o.a, NULL, NULL);
      }
      if (db) { sim::drain(); ldb_close(db); sim::drain(); }
    }
    std::set<string> ks;
    for (auto &b : W.batches) for (auto &u : b.ups) ks.insert(u.key);
    W.keys.assign(ks.begin(), ks.end());
    W.keys.push_back("key-never-written");
    // the undamaged image must read back exactly (otherwise nothing below means anything)
    if (!failed()) {
      simfs::copy_tree(dir, base);
      simfs::remove_file(base + "/LOCK");
      DbOptions opt; Config c = p.cfg; c.paranoid = 1; opt.set(c, false);
      ldb_t *db = nullptr;
      simfs::copy_tree(base, mut);
      int rc = ldb_open(mut.c_str(), &opt.o, &db);
      if (rc != LDB_OK) violation("C11", "build_failed", "reopening the undamaged database failed: %s", rcname(rc));
      else {
        std::vector<std::pair<string, string>> rows;
        db_scan(db, &rows, nullptr, 1);
        if (Contents(rows.begin(), rows.end()) != W.model) violation("C01", "scan_mismatch", "undamaged database does not read back the model");
        ldb_close(db); sim::drain();
      }
    }
    // enumerate mutations, structure-aware
    std::vector<Mutation> muts;
    Rng r(p.seed ^ 0xDA4A6E);
    bool dense = p.geti("dense", 0) != 0;
    size_t ntables = 0;
    if (!failed()) {
      auto add_pos = [&](const string &f, int fc, size_t off, const char *region, size_t fsize) {
        if (dense) {
          for (int b = 0; b < 8; b++) muts.push_back({f, fc, off, 0, b, region});
          muts.push_back({f, fc, off, 1, 0, region}); muts.push_back({f, fc, off, 2, 0, region});
        } else {
          muts.push_back({f, fc, off, 0, (int)r.below(8), region});
          if (r.chance(0.5)) muts.push_back({f, fc, off, r.chance(0.5) ? 1 : 2, 0, region});
        }
        if (r.chance(dense ? 0.25 : 0.08)) muts.push_back({f, fc, off, 3, 0, region});
        if (r.chance(dense ? 0.25 : 0.08) && fsize > 0) muts.push_back({f, fc, off, 4, 0, region});
      };
      for (auto &name : simfs::list_dir(base)) {
        uint64_t num; int fc;
        if (!parse_db_filename(name, &num, &fc)) continue;
        string data; simfs::read_file(base + "/" + name, &data);
        if (fc == simfs::FC_TABLE) {
          ntables++;
          ref::TableDecode td = ref::table_decode(data);
          if (!td.ok) { violation("C14", "table_decode", "independent reader cannot decode undamaged table %s: %s", name.c_str(), td.error.c_str()); break; }
          size_t n = data.size();
          // files shorter than a footer, and the empty file
          for (size_t o : {(size_t)0, (size_t)1, (size_t)47}) if (o < n) muts.push_back({name, fc, o, 3, 0, "whole-file"});
          for (size_t o = n - 48; o < n; o++) add_pos(name, fc, o, "footer", n);
          for (size_t o = td.index_off; o < td.index_off + td.index_len; o++) add_pos(name, fc, o, "index", n);
          for (size_t o = td.meta_off; o < td.meta_off + td.meta_len; o++) add_pos(name, fc, o, "metaindex", n);
          for (size_t i = 0; i < td.regions.size(); i++) {
            auto reg = td.regions[i];
            if (reg.first == td.index_off || reg.first == td.meta_off) continue;
            bool is_filter = td.has_filter && i == 0;
            for (size_t o = reg.first + reg.second - 5; o < reg.first + reg.second; o++) add_pos(name, fc, o, is_filter ? "filter-trailer" : "block-trailer", n);
            size_t body = reg.second - 5;
            size_t samples = is_filter ? std::min<size_t>(body, dense ? 64 : 12) : (dense ? 24 : 6);
            for (size_t s = 0; s < samples && body > 0; s++) add_pos(name, fc, reg.first + (size_t)r.below(body), is_filter ? "filter" : "data-block", n);
          }
        } else if (fc == simfs::FC_LOG || fc == simfs::FC_MANIFEST) {
          const char *reg = fc == simfs::FC_LOG ? "log" : "manifest";
          size_t n = data.size();
          for (size_t o = 0; o < std::min<size_t>(n, 7); o++) add_pos(name, fc, o, reg, n);
          for (int s = 0; s < (dense ? 80 : 20) && n > 0; s++) add_pos(name, fc, (size_t)r.below(n), reg, n);
          // zeros from a physical fragment header to the end of its block
          std::vector<size_t> phys;
          for (size_t q = 0; q + 7 <= n;) { size_t rem = 32768 - q % 32768; if (rem < 7) { q += rem; continue; } phys.push_back(q); q += 7 + ((unsigned char)data[q + 4] | ((size_t)(unsigned char)data[q + 5] << 8)); }
          for (int s = 0; s < (dense ? 24 : 6) && !phys.empty(); s++) muts.push_back({name, fc, phys[r.below(phys.size())], 5, 0, reg});
          for (size_t q : phys) if (q % 32768 == 0 && q > 0) muts.push_back({name, fc, q, 5, 0, reg}); // a whole block (fragment of a multi-block record) reads back as zeros
        } else if (fc == simfs::FC_CURRENT) {
          for (size_t o = 0; o < data.size(); o++) add_pos(name, fc, o, "current", data.size());
        }
      }
      size_t maxm = (size_t)p.geti("max_mut", 450);
      std::stable_partition(muts.begin(), muts.end(), [](const Mutation &x) { return x.kind == 5; });
      size_t keep = 0; while (keep < muts.size() && muts[keep].kind == 5) keep++;
      if (muts.size() > maxm) { // keep a uniform subsample (block-level damage is always kept)
        for (size_t i = keep; i < maxm; i++) std::swap(muts[i], muts[i + (size_t)r.below(muts.size() - i)]);
        muts.resize(maxm);
      }
    }
    count("mutations_enumerated", muts.size());
    for (auto &m : muts) {
      if (failed()) break;
      sim::budget_reset();
      simfs::remove_tree(mut);
      simfs::copy_tree(base, mut);
      string data;
      simfs::read_file(mut + "/" + m.file, &data);
      if (!apply_mutation(&data, m)) continue; // no change (byte already had that value)
      simfs::write_file(mut + "/" + m.file, data);
      judge_image(W, mut, m);
      sim::drain();
    }
    out->nontrivial = out->counts["mutations"] >= 100 && ntables >= 1;
  }
  end_run(out);
}
