// In-memory POSIX-like file system behind link-time wrappers of the libc file
// calls.  Records a journal from which crash images are materialised.
#pragma once
#include <stdint.h>
#include <map>
#include <memory>
#include <string>
#include <vector>

namespace simfs {

enum JType { J_CREATE, J_WRITE, J_FSYNC, J_FSYNCDIR, J_RENAME, J_UNLINK, J_MKDIR, J_RMDIR, J_LINK, J_CLOSE };
extern const char *jtype_name[];

struct JEntry {
  JType t;
  std::string a, b;      // paths (b: rename/link target)
  uint64_t ino = 0;      // inode acted on
  size_t off = 0, len = 0; // J_WRITE: byte range inside Journal::data[ino]
  uint64_t step = 0;     // scheduler step
  int tid = 0;
  int op = -1;           // harness operation index of the calling thread
};

struct Journal {
  std::string root;                               // only paths under root are recorded
  std::map<std::string, uint64_t> base;           // pre-existing (durable) files: path -> ino
  std::map<std::string, bool> base_dirs;
  std::map<uint64_t, std::string> data;           // ino -> every byte ever written (append-only)
  std::map<uint64_t, size_t> base_len;            // ino -> durable length at start
  std::vector<JEntry> e;
  bool is_dirop(size_t i) const {
    JType t = e[i].t;
    return t == J_CREATE || t == J_RENAME || t == J_UNLINK || t == J_MKDIR || t == J_RMDIR || t == J_LINK;
  }
};

// Length policies for crash images.
enum LenPolicy { L_SYNCED = 0, L_WRITTEN = 1, L_RANDOM = 2, L_TORN_LAST = 3, L_TORN_ALIGNED = 4 };

struct ImageSpec {
  size_t k = 0;          // journal prefix length (entries [0,k) have been issued)
  size_t dircut = 0;     // directory operations with index < dircut persisted
  int lenpolicy = L_WRITTEN;
  uint64_t seed = 0;
  std::string describe() const;
};

struct ImageFile { std::string name; uint64_t ino; size_t len, synced, written; };

// File classes (by base name), used by fault rules and statistics.
enum FClass { FC_ANY = 0, FC_LOG, FC_TABLE, FC_MANIFEST, FC_CURRENT, FC_TEMP, FC_LOCK, FC_INFO, FC_DIR, FC_OTHER, FC_N };
extern const char *fclass_name[];
int classify(const std::string &path);

enum Call { C_ANY = 0, C_OPEN, C_CREAT, C_READ, C_WRITE, C_FSYNC, C_RENAME, C_UNLINK, C_CLOSE, C_MKDIR, C_RMDIR, C_LINK, C_MMAP, C_OPENDIR, C_STAT, C_ACCESS, C_LSEEK, C_FCNTL_LOCK, C_N };
extern const char *call_name[];

struct FaultRule {
  int call = C_ANY, fclass = FC_ANY;
  int nth = 0;            // fire on the nth matching call (0-based) after arming
  int err = 5;            // errno
  bool persistent = false; // keep failing every later matching call
  int partial = 0;        // write only: bytes (per mille of the request) written before failing
  // state
  int seen = 0; bool fired = false; int fires = 0;
};

struct FiredFault { int call, fclass, err; std::string path; uint64_t step; int tid, op; bool partial; };
struct FailedCall { int call; std::string path; int err; uint64_t step; int tid; };

struct Noise { double short_write = 0, short_read = 0, eintr = 0; uint64_t seed = 1; };

struct Counters {
  uint64_t calls[C_N][FC_N];
  uint64_t short_writes, short_reads, eintrs, bytes_written, bytes_read;
};

void reset();                                  // drop everything under /sim, all fds, faults, counters
void set_seed(uint64_t seed);                  // readdir permutation, noise
void set_rlimit_nofile(long n);
void mkdir_p(const std::string &path);
void start_recording(Journal *j, const std::string &root); // snapshots the subtree as durable base
void stop_recording();
Journal *recording();
void set_current_op(int op);                   // for the calling simulated thread
void arm(const FaultRule &r);
void clear_faults();
std::vector<FaultRule> &rules();
std::vector<FiredFault> &fired();
std::vector<FailedCall> &failed_calls();
void set_noise(const Noise &n);
Counters &counters();

// Direct (harness-side) access, no yield points, no faults, not journaled.
bool exists(const std::string &path);
bool read_file(const std::string &path, std::string *out);
void write_file(const std::string &path, const std::string &data); // create/replace
bool remove_file(const std::string &path);
std::vector<std::string> list_dir(const std::string &dir);        // sorted base names
void remove_tree(const std::string &root);
void copy_tree(const std::string &from, const std::string &to);   // deep copy, new inode numbers
uint64_t inode_of(const std::string &path);
size_t total_bytes(const std::string &root);
uint64_t tree_hash(const std::string &root, bool skip_lock);      // names + contents
int open_fd_count();
std::vector<std::string> open_paths();

// POSIX record-lock model: a second (stub) process tries F_SETLK on the file.
// Returns true if the foreign process would obtain the lock.
bool foreign_trylock(const std::string &path);
bool foreign_lock(const std::string &path, bool on);   // the stub second process takes (on) or drops (off) the record lock; false if it cannot
bool locked_by_self(const std::string &path);

// Crash images.
size_t min_dircut(const Journal &j, size_t k);     // smallest legal dircut for prefix k
std::vector<ImageFile> mount_image(const Journal &j, const ImageSpec &s, const std::string &to);

} // namespace simfs
