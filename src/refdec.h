// Independent encoders/decoders for the LevelDB on-disk formats, written from
// the format documents.  Shares no code with lcdb.  Used as oracles.
#pragma once
#include <stdint.h>
#include <map>
#include <string>
#include <vector>

namespace ref {

uint32_t crc32c(const void *data, size_t n);          // table driven
uint32_t crc32c_bitwise(const void *data, size_t n);  // bit-by-bit reference
uint32_t crc_mask(uint32_t c);
bool selftest(std::string *err);

// varints
bool get_varint32(const std::string &s, size_t *pos, uint32_t *v);
bool get_varint64(const std::string &s, size_t *pos, uint64_t *v);
void put_varint32(std::string *s, uint32_t v);
void put_varint64(std::string *s, uint64_t v);
void put_fixed32(std::string *s, uint32_t v);
void put_fixed64(std::string *s, uint64_t v);
uint32_t get_fixed32(const char *p);
uint64_t get_fixed64(const char *p);

// ---- log format ----
enum { LOG_BLOCK = 32768, LOG_HEADER = 7 };
// Appends the physical encoding of one logical record, given the current file offset.
void log_encode(std::string *file, const std::string &record);

struct LogRecord { std::string data; size_t start = 0, end = 0; }; // [start,end): physical extent incl. headers
struct LogDecode {
  std::vector<LogRecord> records;   // logical records that are completely intact, in order
  std::vector<std::string> problems; // every place where bytes had to be skipped (not the clean torn tail)
  bool clean_eof = true;            // stream ended cleanly or in a legal torn tail
  size_t consumed = 0;              // offset after the last byte that belongs to an intact record
};
// initial_offset: logical position of content[0] inside its block sequence (log reuse): 0 normally.
LogDecode log_decode(const std::string &content);

// ---- write batch ----
struct BatchOp { bool del; std::string key, value; };
struct Batch { uint64_t seq = 0; uint32_t count = 0; std::vector<BatchOp> ops; };
bool batch_decode(const std::string &rec, Batch *out);

// ---- internal keys ----
struct IKey { std::string user; uint64_t seq = 0; int type = 0; };
bool ikey_parse(const std::string &ik, IKey *out);
std::string ikey_make(const std::string &user, uint64_t seq, int type);

// ---- version edits ----
struct FileMeta { int level; uint64_t number, size; std::string smallest, largest; };
struct Edit {
  bool has_cmp = false, has_log = false, has_prev = false, has_next = false, has_seq = false;
  std::string cmp; uint64_t log = 0, prev = 0, next = 0, seq = 0;
  std::vector<std::pair<int, std::string>> compact_ptrs;
  std::vector<std::pair<int, uint64_t>> deleted;
  std::vector<FileMeta> added;
};
bool edit_decode(const std::string &rec, Edit *out);
std::string edit_encode(const Edit &e);   // canonical order used by LevelDB
struct VersionState {
  std::string cmp; uint64_t log = 0, prev = 0, next = 0, seq = 0;
  std::map<uint64_t, FileMeta> files[7];
  bool apply(const Edit &e, std::string *err);
};

// ---- tables ----
struct TableEntry { std::string ikey, value; };
struct TableDecode {
  bool ok = false; std::string error;
  std::vector<TableEntry> entries;
  size_t data_blocks = 0, compressed_blocks = 0;
  bool has_filter = false;
  std::vector<std::pair<size_t, size_t>> regions; // (offset,len) of every block incl. trailer, in file order
  size_t index_off = 0, index_len = 0, meta_off = 0, meta_len = 0;
};
TableDecode table_decode(const std::string &file);
bool snappy_uncompress(const std::string &in, std::string *out);

} // namespace ref
